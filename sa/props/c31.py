"""C31 - AMP matches answers to questions and fails pending calls on disconnect."""
from __future__ import annotations

import ast
from typing import Dict, List, Optional, Tuple

from sa.astx import module_consts, src
from sa.effects import module_accesses
from sa.props._lib_g import (DictInst, Inst, MiniEval, NativeModel, Opaque, OpaqueInst, PyFn, Raised, Stub, Unsupported, _ClassRef, run_eval)
from sa.selftest import Mutant, Silent
from sa.source import AnalysisError

PROPERTY = "C31"
AMP = "protocols/amp.py"
Q = "twisted.protocols.amp"
TECHNIQUE = "must-precede/dominance/who-may-write on inlined CFGs; scenario interpretation as bounded second layer"
EXPLANATION = (
    'STRUCTURAL (every path, on the view with private helpers inlined or summarised): in _answerReceived/_errorReceived the '
    'pending Deferred is removed from _outstandingRequests before callback/errback is invoked on it (must-precede; a helper '
    'that pops on every path counts); failAllOutgoing assigns _failAllReason and replaces _outstandingRequests before the '
    'first errback call-out (ordering); every statement of _sendBoxCommand that modifies the box, sends it or registers a '
    "Deferred is dominated by '_failAllReason is None' (temporaries substituted); BinaryBoxProtocol.connectionLost, "
    'AMP.connectionLost and stopReceivingBoxes reach the next stage on every normal path; _outstandingRequests, '
    '_failAllReason and _counter are mutated only by the known functions or by private helpers all of whose callers are '
    'allowed (who-may-write closure). BOUNDED second layer (BoxDispatcher interpreted with modelled '
    'Deferred/Failure/fail/maybeDeferred on enumerated histories): concurrent calls answered out of order, error boxes, '
    'duplicate and late answers, loss of the connection inside a result handler, no-answer calls, tag injectivity across '
    '2^16/2^32, failAllOutgoing and AMP.connectionLost in five protocol states with re-entrant and later calls, replies '
    '(answer, declared/fatal/undeclared error, unhandled command, no ASK) and error translation on caller and responder '
    'side, calls made in the window between a local close request and connectionLost (the real sendBox interpreted), declared errors whose text '
    'cannot be encoded. STRUCTURAL as well: sendBox raises a connection-state exception only where `self.transport is None` is established '
    '(callRemote never raises while a transport exists); the reply formatters _commandReceived installs contain no strict encode/decode and no raise '
    'outside a converting handler (every command that asks gets its one box); in ampBoxReceived whatever runs because the command key is present lies on '
    'paths where the answer and error keys are known absent (dispatch precedence, keys resolved through the module constants); AMP.__init__ replaces a '
    'collaborator by its default only by identity with None, never by truth value (box receiver and locator wiring). '
    "Bounded evidence only: 'answer goes to its own question', tag freshness and the error-code mappings (value-flow "
    'clauses; the structural rules decide the exactly-once and disconnect orderings). Not decided: real scheduling, the '
    'synchronous loop-back case, responders that never answer.'
)
RULE_KINDS = {
    "state/who-may-write": "structural", "match/take-before-fire": "structural", "drain/reason-recorded-first": "structural", "drain/table-reset-first": "structural",
    "send/late-call-refused": "structural", "drain/reaches-fail-all": "structural", "reply/formatter-total": "structural", "send/connection-state-never-raises": "structural",
    "match/dispatch-precedence": "structural", "wiring/default-by-identity": "structural",
    "*": "bounded",      # scenario interpretation with modelled Deferreds: a verdict about the enumerated histories
}
ASSUMPTIONS = [
    "the Deferred/Failure models follow twisted's documented semantics for callback/errback/addCallbacks/trap/check (exactly-once delivery itself is property C03)",
    "constructors of RemoteAmpError/UnknownRemoteError store their arguments (modelled); methods inherited from classes outside amp.py/basic.py do nothing relevant",
]


def _fail(msg):
    raise AnalysisError("C31: " + msg)


# ---- models -----------------------------------------------------------------------------------------------------------

class FailureModel(NativeModel):
    _methods = {"check", "trap", "getErrorMessage", "getBriefTraceback", "getTraceback", "printTraceback"}
    _attrs = {"value", "type"}

    def __init__(self, world, value):
        self.world = world
        self.value = value
        if isinstance(value, Inst):
            self.type = _ClassRef(value.cls)
        elif isinstance(value, OpaqueInst):
            self.type = value.of
        elif isinstance(value, Raised):
            self.type = Opaque(value.name)
        else:
            self.type = Opaque(type(value).__name__)

    def _matches(self, t) -> bool:
        v = self.value
        if isinstance(t, _ClassRef):
            return isinstance(v, Inst) and self.world.ev.derives(v.cls, t.cls)
        if isinstance(t, Opaque):
            name = v.of.name if isinstance(v, OpaqueInst) else (v.name if isinstance(v, Raised) else None)
            seen = 0
            while name is not None and seen < 6:
                if name == t.name:
                    return True
                name = self.world.opaque_parents.get(name)
                seen += 1
            return t.name in ("Exception", "BaseException")
        if isinstance(t, type):
            return t in (Exception, BaseException)
        return False

    def check(self, *types):
        for t in types:
            if self._matches(t):
                return t
        return None

    def trap(self, *types):
        m = self.check(*types)
        if m is None:
            raise Raised(self.type.name if isinstance(self.type, Opaque) else self.type.cls.name, self.value)
        return m

    def getErrorMessage(self):
        return repr(self.value)

    getBriefTraceback = getTraceback = getErrorMessage

    def printTraceback(self, *a, **k):
        return None

    def __repr__(self):
        return f"<Failure {self.value!r}>"


class DeferredModel(NativeModel):
    _methods = {"addCallback", "addErrback", "addCallbacks", "addBoth", "callback", "errback", "chainDeferred", "cancel"}
    _attrs = {"called", "result"}

    def __init__(self, world):
        self.world = world
        self.chain: List[Tuple] = []
        self.called = False
        self.result = None
        self.fires = 0
        self.running = False
        self.paused = False

    def addCallbacks(self, callback, errback=None, callbackArgs=(), callbackKeywords=None, errbackArgs=(), errbackKeywords=None):
        self.chain.append(((callback, tuple(callbackArgs or ()), dict(callbackKeywords or {})), (errback, tuple(errbackArgs or ()), dict(errbackKeywords or {}))))
        if self.called:
            self._run()
        return self

    def addCallback(self, callback, *a, **k):
        return self.addCallbacks(callback, None, a, k)

    def addErrback(self, errback, *a, **k):
        return self.addCallbacks(None, errback, (), None, a, k)

    def addBoth(self, fn, *a, **k):
        return self.addCallbacks(fn, fn, a, k, a, k)

    def chainDeferred(self, d):
        return self.addCallbacks(("native", d, "callback"), ("native", d, "errback"))

    def cancel(self):
        return None

    def callback(self, result):
        self._fire(result)

    def errback(self, fail=None):
        if not isinstance(fail, FailureModel):
            fail = FailureModel(self.world, fail)
        self._fire(fail)

    def _fire(self, result):
        self.fires += 1
        if self.called:
            self.world.double_fires.append(self)
            raise Raised("AlreadyCalledError")
        self.called = True
        self.result = result
        self._run()

    def _run(self):
        if self.running or self.paused:
            return
        self.running = True
        try:
            while self.chain:
                (cb, ca, ck), (eb, ea, ek) = self.chain.pop(0)
                fn, a, k = (eb, ea, ek) if isinstance(self.result, FailureModel) else (cb, ca, ck)
                if fn is None:
                    continue
                try:
                    if isinstance(fn, tuple) and fn and fn[0] == "native":
                        getattr(fn[1], fn[2])(self.result)
                        self.result = None
                    else:
                        self.result = self.world.ev.call_value(fn, [self.result] + list(a), k, "deferred callback")
                except Raised as ex:
                    self.result = FailureModel(self.world, ex.value if ex.value is not None else ex)
                if isinstance(self.result, DeferredModel):
                    inner = self.result
                    if inner.called and not inner.chain:
                        self.result = inner.result
                        inner.result = None
                    else:
                        self.paused = True
                        outer = self

                        def resume(r, outer=outer):
                            outer.result = r
                            outer.paused = False
                            outer._run()
                            return None
                        inner.addBoth(PyFn(resume, "resume"))
                        break
        finally:
            self.running = False


class World:
    """One scenario: an interpreter, the models it hands to the interpreted code, and the recorders."""

    def __init__(self, ctx, mod, consts):
        self.ctx, self.mod = ctx, mod
        self.double_fires: List[DeferredModel] = []
        self.opaque_parents = {"MySubError": "MyError", "ConnectionDone": "ConnectionClosed", "ConnectionLost": "ConnectionClosed"}
        cls = {n.name: n for n in mod.tree.body if isinstance(n, ast.ClassDef)}
        self.cls = cls

        def remote(errorCode, description, fatal=False, local=None):
            return Inst(cls["RemoteAmpError"], errorCode=errorCode, description=description, fatal=fatal, local=local, args=(description,))

        def unknown(description):
            return Inst(cls["UnknownRemoteError"], errorCode=consts.get("UNKNOWN_ERROR_CODE"), description=description, fatal=False, local=None, args=(description,))

        def maybe(f, *a, **k):
            try:
                r = self.ev.call_value(f, list(a), k, "responder")
            except Raised as ex:
                d = DeferredModel(self)
                d.errback(FailureModel(self, ex.value if ex.value is not None else ex))
                return d
            if isinstance(r, DeferredModel):
                return r
            if isinstance(r, FailureModel):
                d = DeferredModel(self)
                d.errback(r)
                return d
            d = DeferredModel(self)
            d.callback(r)
            return d

        def failed(x=None):
            d = DeferredModel(self)
            d.errback(x if isinstance(x, FailureModel) else FailureModel(self, x))
            return d

        self.ev = MiniEval(mod, consts=consts, extra_mods=[ctx.mod("protocols/basic.py")], helpers={
            "Deferred": lambda: DeferredModel(self), "fail": failed, "maybeDeferred": maybe, "Failure": lambda v=None: FailureModel(self, v),
            "RemoteAmpError": remote, "UnknownRemoteError": unknown, "nativeString": lambda b: b.decode("ascii") if isinstance(b, bytes) else b,
            "MethodType": lambda f, o: PyFn(lambda *a, **k: self.ev.call_value(f, [o] + list(a), k), "bound"),
        })
        self.sender = Stub("boxSender", attrs={"transport": Stub("transport")})
        self.responders: Dict[bytes, object] = {}
        self.locator = Stub("locator", returns={"locateResponder": PyFn(lambda name: self.responders.get(name), "locateResponder")})

    # -- helpers for scenarios
    def run(self, what, fn):
        k, v = run_eval(fn)
        if k == "unsupported":
            _fail(f"{what} uses a construct outside the interpreted subset: {v}")
        return k, v

    def dispatcher(self) -> Inst:
        d = Inst(self.cls["BoxDispatcher"])
        k, v = self.run("BoxDispatcher.__init__", lambda: self.ev.method(d, "__init__", [self.locator]))
        if k != "value":
            _fail(f"BoxDispatcher.__init__ raises {v}")
        self.run("BoxDispatcher.startReceivingBoxes", lambda: self.ev.method(d, "startReceivingBoxes", [self.sender]))
        return d

    def box(self, data=None) -> DictInst:
        return DictInst(self.cls["AmpBox"], data=dict(data or {}))

    def probe(self, d) -> Dict[str, list]:
        log = {"ok": [], "err": []}
        if isinstance(d, DeferredModel):
            d.addCallbacks(PyFn(lambda r: log["ok"].append(r), "probe-ok"), PyFn(lambda f: log["err"].append(f), "probe-err"))
        return log

    def sent(self) -> List[DictInst]:
        return [a[0] for a in self.sender.called("sendBox")]

    def call(self, disp, command=b"cmd", requiresAnswer=True, box=None):
        b = box if box is not None else self.box({b"arg": b"1"})
        k, d = self.run("BoxDispatcher._sendBoxCommand", lambda: self.ev.method(disp, "_sendBoxCommand", [command, b, requiresAnswer]))
        return k, d, b

    def receive(self, disp, data):
        return self.run("BoxDispatcher.ampBoxReceived", lambda: self.ev.method(disp, "ampBoxReceived", [self.box(data)]))


def _consts(ctx):
    return module_consts(ctx.mod(AMP))


def _desc(f):
    if isinstance(f, FailureModel):
        v = f.value
        if isinstance(v, Inst):
            return f"{v.cls.name}({v.fields.get('errorCode', v.fields.get('args'))!r}, {v.fields.get('description')!r})"
        return repr(v)
    return repr(f)


# ---- scenarios ---------------------------------------------------------------------------------------------------------

def check_matching(ctx, mod, consts):
    q = Q + ".BoxDispatcher"
    for name in ("_sendBoxCommand", "_answerReceived", "_errorReceived", "ampBoxReceived", "_nextTag"):
        ctx.func(AMP, f"BoxDispatcher.{name}")
    ASK, ANSWER, ERROR, COMMAND = (consts[k] for k in ("ASK", "ANSWER", "ERROR", "COMMAND"))
    EC, ED = consts["ERROR_CODE"], consts["ERROR_DESCRIPTION"]
    # -- three concurrent calls, answers out of order
    w = World(ctx, mod, consts)
    disp = w.dispatcher()
    calls = [w.call(disp, b"c%d" % i) for i in range(3)]
    probes = [w.probe(d) for _, d, _ in calls]
    sent = w.sent()
    tags = [b.data.get(ASK) for b in sent]
    ok = all(k == "value" and isinstance(d, DeferredModel) for k, d, _ in calls) and len(sent) == 3 and len(set(tags)) == 3 and None not in tags \
        and all(b.data.get(COMMAND) == b"c%d" % i for i, b in enumerate(sent)) and all(b.data.get(b"arg") == b"1" for b in sent)
    ctx.check(ok, "send/box-and-tag", q + "._sendBoxCommand | <three concurrent calls>",
              f"three calls returned {[k for k, _, _ in calls]} and sent {[dict(b.data) for b in sent]!r}: each must return a Deferred and send its box with COMMAND, its arguments and "
              "a distinct ASK tag")
    if ok:
        order = [1, 2, 0]
        fired_wrong = None
        for step, i in enumerate(order):
            k, v = w.receive(disp, {ANSWER: tags[i], b"n": b"%d" % i})
            if k != "value":
                fired_wrong = fired_wrong or f"the answer to call {i} raises {v}"
            for j, p in enumerate(probes):
                want = 1 if j in order[:step + 1] else 0
                if len(p["ok"]) != want or p["err"]:
                    fired_wrong = fired_wrong or f"after answering calls {order[:step + 1]} call {j} has {len(p['ok'])} results and {len(p['err'])} errors"
                if want and p["ok"] and (not isinstance(p["ok"][0], DictInst) or p["ok"][0].data.get(b"n") != b"%d" % j):
                    fired_wrong = fired_wrong or f"call {j} received {p['ok'][0]!r}, which answers another call"
        ctx.check(fired_wrong is None and not w.double_fires, "match/own-answer", q + " | <answers out of order>", fired_wrong or "a Deferred was fired twice")
        # a duplicate answer must not fire anything again
        k, v = w.receive(disp, {ANSWER: tags[0], b"n": b"again"})
        ctx.check(all(len(p["ok"]) == 1 and not p["err"] for p in probes) and not w.double_fires, "match/fires-once", q + " | <duplicate answer>",
                  "a second answer carrying an already answered tag fires a call's Deferred again")
    # -- error boxes
    w = World(ctx, mod, consts)
    disp = w.dispatcher()
    calls = [w.call(disp, b"c%d" % i) for i in range(3)]
    probes = [w.probe(d) for _, d, _ in calls]
    tags = [b.data.get(ASK) for b in w.sent()]
    bad = None
    if len(tags) == 3 and None not in tags:
        codes = [b"MYCODE", consts["UNHANDLED_ERROR_CODE"], consts["UNKNOWN_ERROR_CODE"]]
        for i in (2, 0, 1):
            k, v = w.receive(disp, {ERROR: tags[i], EC: codes[i], ED: b"why %d" % i})
            if k != "value":
                bad = bad or f"the error box for call {i} raises {v}"
        for i, p in enumerate(probes):
            if len(p["err"]) != 1 or p["ok"]:
                bad = bad or f"call {i} got {len(p['err'])} errors and {len(p['ok'])} results from its error box"
                continue
            f = p["err"][0]
            val = f.value if isinstance(f, FailureModel) else None
            code_, desc_ = (val.fields.get("errorCode"), val.fields.get("description")) if isinstance(val, Inst) and "errorCode" in val.fields else \
                (tuple(val.fields.get("args", (None, None))[:2]) if isinstance(val, Inst) and len(val.fields.get("args", ())) >= 2 else (None, None))
            if not (isinstance(val, Inst) and code_ == codes[i] and desc_ in ("why %d" % i, b"why %d" % i)):
                bad = bad or f"call {i} failed with {_desc(f)}; its error box said code {codes[i]!r}, description 'why {i}'"
            if i == 1 and isinstance(val, Inst) and val.cls.name != "UnhandledCommand":
                bad = bad or f"an UNHANDLED error box surfaces as {val.cls.name}, not UnhandledCommand"
    else:
        bad = "calls were not sent with tags"
    ctx.check(bad is None and not w.double_fires, "match/own-error", q + " | <error boxes out of order>", bad or "a Deferred was fired twice")
    # -- the application drops the connection from inside the handler of a result: that call is finished and must not be failed on top
    for kind in ("answer", "error"):
        w = World(ctx, mod, consts)
        disp = w.dispatcher()
        calls = [w.call(disp, b"c%d" % i) for i in range(2)]
        tags = [b.data.get(ASK) for b in w.sent()]
        reason = FailureModel(w, OpaqueInst(Opaque("ConnectionDone")))
        d0 = calls[0][1]
        bad = None
        if not isinstance(d0, DeferredModel) or None in tags:
            bad = "calls were not sent with tags"
        else:
            d0.addBoth(PyFn(lambda r: (w.ev.method(disp, "failAllOutgoing", [reason]), r)[1], "drop-connection-in-handler"))
            p0, p1 = w.probe(d0), w.probe(calls[1][1])
            data = {ANSWER: tags[0], b"n": b"0"} if kind == "answer" else {ERROR: tags[0], EC: b"X", ED: b"d"}
            w.receive(disp, data)
            if d0.fires != 1 or w.double_fires:
                bad = f"a call whose {kind} handler loses the connection is fired {d0.fires} times (its {kind} and then the connection-loss failure): it was still registered while its Deferred ran"
            elif len(p1["err"]) != 1:
                bad = f"the other pending call got {len(p1['err'])} failures when the connection was lost inside a handler"
        ctx.check(bad is None, "match/fires-once", q + f" | <connection lost inside the {kind} handler>", bad or "")
    # -- a box that is neither answer, error nor command
    w = World(ctx, mod, consts)
    disp = w.dispatcher()
    k, v = w.receive(disp, {b"stray": b"1"})
    ctx.check(k == "raised" and v == "NoEmptyBoxes", "dispatch/unknown-box", q + ".ampBoxReceived | <no distinguishing key>", f"a box without ANSWER/ERROR/COMMAND gives {v!r} ({k}) instead of NoEmptyBoxes")
    # -- calls that do not want an answer
    w = World(ctx, mod, consts)
    disp = w.dispatcher()
    k, d, b = w.call(disp, b"fire", requiresAnswer=False)
    sent = w.sent()
    pending = disp.fields.get("_outstandingRequests")
    ok = k == "value" and d is None and len(sent) == 1 and ASK not in sent[0].data and sent[0].data.get(COMMAND) == b"fire" and not pending
    ctx.check(ok, "send/no-answer-call", q + "._sendBoxCommand | <requiresAnswer=False>",
              f"a call that wants no answer returned {d!r} ({k}), sent {[dict(x.data) for x in sent]!r} and left {pending!r} registered; it must return None, send the box without ASK and register nothing")
    # -- tags are an injective function of the counter
    seen: Dict[bytes, int] = {}
    bad = None
    for start in (0, 1, 9, 15, 16, 254, 255, 256, 4095, 65534, 65535, 65536, 65537, 2 ** 31 - 1, 2 ** 32 - 2, 2 ** 32 - 1, 2 ** 32, 2 ** 40):
        w = World(ctx, mod, consts)
        disp = w.dispatcher()
        disp.fields["_counter"] = start
        for step in range(2):
            k, t = w.run("BoxDispatcher._nextTag", lambda: w.ev.method(disp, "_nextTag", []))
            n = start + step + 1
            if k != "value" or not isinstance(t, bytes) or not t:
                bad = bad or f"_nextTag() with counter {start + step} gives {t!r} ({k})"
            elif t in seen and seen[t] != n:
                bad = bad or f"the {n}th and the {seen[t]}th question of a connection get the same tag {t!r}: an answer would be matched to the wrong (or a finished) call"
            else:
                seen[t] = n
    ctx.check(bad is None, "send/fresh-tag", q + "._nextTag | <counter values incl. 2^16 / 2^32 boundaries>", bad or "", detail=f"{len(seen)} tags, pairwise distinct")


def check_disconnect(ctx, mod, consts):
    q = Q + ".BoxDispatcher"
    ctx.func(AMP, "BoxDispatcher.failAllOutgoing")
    ASK, COMMAND = consts["ASK"], consts["COMMAND"]

    def scenario(label, lose, make=None, same_reason=False):
        """pending calls + one re-entrant call made from the first call's errback; ``lose(world, obj)`` loses the connection."""
        w = World(ctx, mod, consts)
        disp = make(w) if make else w.dispatcher()
        calls = [w.call(disp, b"c%d" % i) for i in range(3)]
        nsent = len(w.sent())
        reentrant: Dict[str, object] = {}

        def again(f):
            k, d, b = w.call(disp, b"late")
            reentrant["k"], reentrant["d"], reentrant["box"] = k, d, b
            reentrant["probe"] = w.probe(d)
            return None
        probes = []
        for i, (_, d, _) in enumerate(calls):
            if i == 0 and isinstance(d, DeferredModel):
                d.addErrback(PyFn(again, "call-again-from-errback"))
            probes.append(w.probe(d))
        reason = FailureModel(w, OpaqueInst(Opaque("ConnectionDone")))
        tags_before = [b.data.get(ASK) for b in w.sent()]
        k, v = w.run(label, lambda: lose(w, disp, reason))
        bad = None
        if k != "value":
            bad = f"{label} raises {v}"
        for i, p in enumerate(probes[1:], 1):
            if len(p["err"]) != 1 or p["ok"]:
                bad = bad or f"after {label} pending call {i} has {len(p['err'])} failures and {len(p['ok'])} results (exactly one failure is required)"
            elif same_reason and p["err"][0] is not reason:
                bad = bad or f"after {label} pending call {i} fails with {_desc(p['err'][0])}, not with the connection-loss reason it was given"
        # an answer that straggles in after the loss must not fire anything again
        if bad is None and tags_before and tags_before[1] is not None:
            w.receive(disp, {consts["ANSWER"]: tags_before[1], b"n": b"late"})
            if probes[1]["ok"] or len(probes[1]["err"]) != 1 or w.double_fires:
                bad = f"an answer arriving after {label} fires the already failed call again"
        d0 = calls[0][1]
        if not (isinstance(d0, DeferredModel) and d0.called and d0.fires == 1):
            bad = bad or f"after {label} pending call 0 fired {getattr(d0, 'fires', '?')} times"
        if w.double_fires:
            bad = bad or "a Deferred was fired twice"
        ctx.check(bad is None, "drain/fails-pending", q + f" | {label}", bad or "")
        # the re-entrant call
        rb = None
        if "k" not in reentrant:
            rb = "the errback of the first pending call never ran"
        else:
            d = reentrant["d"]
            if not (reentrant["k"] == "value" and isinstance(d, DeferredModel) and d.called and len(reentrant["probe"]["err"]) == 1):
                rb = f"a callRemote made from the connection-loss errback of another call returned {d!r} ({reentrant['k']}) that has not failed: it is registered on a dead connection and never fires"
            elif len(w.sent()) != nsent:
                rb = "a callRemote made from the connection-loss errback of another call still writes its box to the lost connection"
        ctx.check(rb is None, "drain/reentrant-call", q + f" | {label}", rb or "")
        # later calls
        k, d, b = w.call(disp, b"after")
        p = w.probe(d)
        lb = None
        if not (k == "value" and isinstance(d, DeferredModel) and d.called and len(p["err"]) == 1):
            lb = f"a call made after {label} returned {d!r} ({k}) instead of an already failed Deferred"
        elif len(w.sent()) != nsent:
            lb = f"a call made after {label} is still sent"
        elif dict(b.data) != {b"arg": b"1"}:
            lb = f"a call made after {label} modifies its box to {dict(b.data)!r} although nothing is sent"
        k2, d2, _ = w.call(disp, b"after", requiresAnswer=False)
        if not (k2 == "value" and d2 is None and len(w.sent()) == nsent):
            lb = lb or f"a no-answer call made after {label} returned {d2!r} ({k2}) / was sent"
        ctx.check(lb is None, "drain/late-call-fails", q + f" | {label}", lb or "")
        return w

    scenario("failAllOutgoing(reason)", lambda w, d, r: w.ev.method(d, "failAllOutgoing", [r]), same_reason=True)
    scenario("stopReceivingBoxes(reason)", lambda w, d, r: w.ev.method(d, "stopReceivingBoxes", [r]), same_reason=True)

    # the protocol's connectionLost in every state
    def amp(w, **state):
        a = Inst(w.cls["AMP"], boxReceiver=None, locator=w.locator, _outstandingRequests={}, transport=Stub("transport"), boxSender=w.sender,
                 _transportPeer="peer", _transportHost="host", _ampInitialized=True)
        a.fields["boxReceiver"] = a
        a.fields.update(state)
        return a

    for name in ("BinaryBoxProtocol.connectionLost", "AMP.connectionLost", "BoxDispatcher.stopReceivingBoxes"):
        ctx.func(AMP, name)
    states = [("plain", {}), ("protocol switched", {"innerProtocol": Stub("inner"), "innerProtocolClientFactory": Stub("factory")}),
              ("protocol switched, no factory", {"innerProtocol": Stub("inner")}), ("key limit exceeded", {"_keyLengthLimitExceeded": True}),
              ("TLS just started", {"_justStartedTLS": True})]
    for label, st in states:
        for closed in ("ConnectionDone", "ConnectionLost"):
            def lose(w, a, r, closed=closed):
                r2 = FailureModel(w, OpaqueInst(Opaque(closed)))
                return w.ev.method(a, "connectionLost", [r2])
            scenario(f"AMP.connectionLost({closed}) [{label}]", lose, make=lambda w, st=st: amp(w, **st))


def check_replies(ctx, mod, consts):
    q = Q + ".BoxDispatcher._commandReceived"
    for name in ("_commandReceived", "dispatchCommand", "_safeEmit"):
        ctx.func(AMP, f"BoxDispatcher.{name}")
    ASK, ANSWER, ERROR, COMMAND, EC, ED = (consts[k] for k in ("ASK", "ANSWER", "ERROR", "COMMAND", "ERROR_CODE", "ERROR_DESCRIPTION"))

    # a responder that answers
    w = World(ctx, mod, consts)
    disp = w.dispatcher()
    w.responders[b"cmd"] = PyFn(lambda box: w.box({b"r": b"ok"}), "responder")
    k, v = w.receive(disp, {COMMAND: b"cmd", ASK: b"7", b"a": b"1"})
    sent = w.sent()
    ctx.check(k == "value" and len(sent) == 1 and dict(sent[0].data) == {b"r": b"ok", ANSWER: b"7"}, "reply/answer", q + " | <responder answers>",
              f"the reply to a question tagged ASK=b'7' is {[dict(b.data) for b in sent]!r} ({k} {v if k != 'value' else ''}); it must be the responder's box plus ANSWER=b'7'")
    # later answer (the responder returns a Deferred fired afterwards) and two questions answered in reverse order
    w = World(ctx, mod, consts)
    disp = w.dispatcher()
    pend: List[DeferredModel] = []

    def later(box):
        d = DeferredModel(w)
        pend.append(d)
        return d
    w.responders[b"cmd"] = PyFn(later, "responder")
    w.receive(disp, {COMMAND: b"cmd", ASK: b"1"})
    w.receive(disp, {COMMAND: b"cmd", ASK: b"2"})
    none_yet = len(w.sent()) == 0
    if len(pend) == 2:
        pend[1].callback(w.box({b"r": b"second"}))
        pend[0].callback(w.box({b"r": b"first"}))
    got = [dict(b.data) for b in w.sent()]
    ctx.check(none_yet and got == [{b"r": b"second", ANSWER: b"2"}, {b"r": b"first", ANSWER: b"1"}], "reply/answer", q + " | <answers later, in reverse order>",
              f"two questions answered later in reverse order produce {got!r}; each answer must carry the ASK tag of its own question")
    # declared / fatal / undeclared errors, unknown command, no ASK
    cases = [
        ("declared error", lambda w: FailureModel(w, w.ev.helpers["RemoteAmpError"](b"MYCODE", "nope")), "AmpBox", b"MYCODE", b"nope", False),
        ("fatal declared error", lambda w: FailureModel(w, w.ev.helpers["RemoteAmpError"](b"FATAL", "dead", True)), "QuitBox", b"FATAL", b"dead", True),
        ("undeclared error", lambda w: FailureModel(w, OpaqueInst(Opaque("ZeroDivisionError"))), "QuitBox", consts["UNKNOWN_ERROR_CODE"], None, True),
        ("declared error whose text has a lone surrogate", lambda w: FailureModel(w, w.ev.helpers["RemoteAmpError"](b"MYCODE", "no such file: \udcff.txt")), "AmpBox", b"MYCODE", None, False),
        ("declared error with non-ASCII text", lambda w: FailureModel(w, w.ev.helpers["RemoteAmpError"](b"MYCODE", "na\u00efve \u2603")), "AmpBox", b"MYCODE", "na\u00efve \u2603".encode("utf-8"), False),
        ("declared error with a bytes description", lambda w: FailureModel(w, w.ev.helpers["RemoteAmpError"](b"MYCODE", b"raw \xff")), "AmpBox", b"MYCODE", b"raw \xff", False),
    ]
    for label, mk, boxcls, code, desc, quits in cases:
        w = World(ctx, mod, consts)
        disp = w.dispatcher()
        w.responders[b"cmd"] = PyFn(lambda box, w=w, mk=mk: mk(w), "responder")
        k, v = w.receive(disp, {COMMAND: b"cmd", ASK: b"9"})
        sent = w.sent()
        ok = k == "value" and len(sent) == 1 and sent[0].data.get(ERROR) == b"9" and sent[0].data.get(EC) == code and ANSWER not in sent[0].data \
            and isinstance(sent[0].data.get(ED), bytes) and (desc is None or sent[0].data.get(ED) == desc) and sent[0].cls.name == boxcls
        closed = bool(w.sender.attrs["transport"].called("loseConnection"))
        ctx.check(ok and closed == quits, "reply/undeclared-error" if label == "undeclared error" else "reply/declared-error", q + f" | <{label}>",
                  f"a responder failing with a {label} produces {[(b.cls.name, dict(b.data)) for b in sent]!r} ({k}), connection closed: {closed}; expected one {boxcls} with ERROR=b'9', "
                  f"ERROR_CODE={code!r}" + (f", ERROR_DESCRIPTION={desc!r}" if desc else "") + f", connection closed: {quits}")
    # the answer cannot be sent any more (connection lost / protocol switched meanwhile): dropped silently, not an unhandled error; anything else is reported
    for exc, quiet in (("ConnectionLost", True), ("ProtocolSwitched", True), ("ZeroDivisionError", False)):
        w = World(ctx, mod, consts)
        disp = w.dispatcher()

        def refuse(box, exc=exc):
            raise Raised(exc, OpaqueInst(Opaque(exc)) if exc not in w.cls else Inst(w.cls[exc], args=()))
        w.sender.returns["sendBox"] = PyFn(refuse, "sendBox")
        w.responders[b"cmd"] = PyFn(lambda box, w=w: w.box({b"r": b"ok"}), "responder")
        k, v = w.receive(disp, {COMMAND: b"cmd", ASK: b"5"})
        unhandled = len(w.sender.called("unhandledError"))
        ctx.check(k == "value" and (unhandled == 0) == quiet, "reply/emit-on-dead-connection", q + f" | sendBox raises {exc}",
                  f"the answer to a question is ready but sendBox raises {exc}: ampBoxReceived {'returns' if k == 'value' else 'raises ' + str(v)} and unhandledError is called {unhandled} time(s); "
                  + ("expected the box to be dropped silently" if quiet else "expected the error to be reported through unhandledError exactly once"))
    w = World(ctx, mod, consts)
    disp = w.dispatcher()
    k, v = w.receive(disp, {COMMAND: b"nosuch", ASK: b"3"})
    sent = w.sent()
    ok = k == "value" and len(sent) == 1 and sent[0].data.get(ERROR) == b"3" and sent[0].data.get(EC) == consts["UNHANDLED_ERROR_CODE"]
    ctx.check(ok, "reply/unhandled-command", q + " | <no responder>", f"a command nobody handles is answered with {[dict(b.data) for b in sent]!r} ({k}); expected ERROR=b'3', ERROR_CODE=UNHANDLED")
    w = World(ctx, mod, consts)
    disp = w.dispatcher()
    ran = []
    w.responders[b"cmd"] = PyFn(lambda box: (ran.append(1), w.box({b"r": b"x"}))[1], "responder")
    k, v = w.receive(disp, {COMMAND: b"cmd"})
    ctx.check(k == "value" and ran == [1] and not w.sent(), "reply/not-asked", q + " | <command without ASK>",
              f"a command without ASK ran the responder {len(ran)} times and sent {[dict(b.data) for b in w.sent()]!r}; it must run once and send nothing")


def check_error_translation(ctx, mod, consts):
    """Caller side (Command._doCommand) and responder side (CommandLocator._wrapWithSerialization)."""
    ASK, ANSWER, ERROR, EC, ED = (consts[k] for k in ("ASK", "ANSWER", "ERROR", "ERROR_CODE", "ERROR_DESCRIPTION"))
    ctx.func(AMP, "Command._doCommand")
    for code, want in ((b"MYCODE", "MyError"), (b"OTHER", "UnknownRemoteError"), (consts["UNKNOWN_ERROR_CODE"], "UnknownRemoteError")):
        w = World(ctx, mod, consts)
        disp = w.dispatcher()
        cmd = Inst(w.cls["Command"], structured={}, requiresAnswer=True, commandName=b"cmd", reverseErrors={b"MYCODE": Opaque("MyError")})
        k, d = w.run("Command._doCommand", lambda: w.ev.method(cmd, "_doCommand", [disp]))
        p = w.probe(d)
        sent = w.sent()
        bad = None
        if not (k == "value" and isinstance(d, DeferredModel) and len(sent) == 1):
            bad = f"_doCommand returned {d!r} ({k}) and sent {len(sent)} boxes"
        else:
            w.receive(disp, {ERROR: sent[0].data.get(ASK), EC: code, ED: b"because"})
            f = p["err"][0] if len(p["err"]) == 1 and not p["ok"] else None
            v = f.value if isinstance(f, FailureModel) else None
            name = v.of.name if isinstance(v, OpaqueInst) else (v.cls.name if isinstance(v, Inst) else repr(v))
            if name != want:
                bad = f"an error box with code {code!r} reaches the caller of callRemote as {name} ({len(p['err'])} failures, {len(p['ok'])} results); expected {want}"
        ctx.check(bad is None, "caller/error-mapping", f"{Q}.Command._doCommand | error code {code!r}", bad or "")
    # an answer reaches the caller parsed, a no-answer command returns None
    w = World(ctx, mod, consts)
    disp = w.dispatcher()
    cmd = Inst(w.cls["Command"], structured={}, requiresAnswer=False, commandName=b"cmd", reverseErrors={})
    k, d = w.run("Command._doCommand", lambda: w.ev.method(cmd, "_doCommand", [disp]))
    ctx.check(k == "value" and d is None and len(w.sent()) == 1 and ASK not in w.sent()[0].data, "caller/error-mapping", f"{Q}.Command._doCommand | requiresAnswer=False",
              f"a command that needs no answer returned {d!r} ({k})")
    # responder side
    ctx.func(AMP, "CommandLocator._wrapWithSerialization")
    for label, raised, want_code, passes in (("declared error", "MyError", b"MYCODE", False), ("subclass of a declared error", "MySubError", b"MYCODE", False),
                                             ("undeclared error", "KeyError", None, True)):
        w = World(ctx, mod, consts)
        command = Stub("command", attrs={"allErrors": {Opaque("MyError"): b"MYCODE", Opaque("FatalError"): b"FATAL"}, "fatalErrors": {Opaque("FatalError"): b"FATAL"},
                                          "errors": {Opaque("MyError"): b"MYCODE"}},
                       returns={"parseArguments": {}, "makeResponse": PyFn(lambda objects, proto: w.box({b"r": b"1"}), "makeResponse")})
        loc = Inst(w.cls["CommandLocator"])

        def responder(**kw):
            raise Raised(raised, OpaqueInst(Opaque(raised)))
        k, doit = w.run("CommandLocator._wrapWithSerialization", lambda: w.ev.method(loc, "_wrapWithSerialization", [PyFn(responder, "responder"), command]))
        k2, d = w.run("the wrapped responder", lambda: w.ev.call_value(doit, [w.box({})], {}, "doit"))
        p = w.probe(d)
        f = p["err"][0] if len(p["err"]) == 1 else None
        v = f.value if isinstance(f, FailureModel) else None
        if passes:
            ok = isinstance(v, OpaqueInst) and v.of.name == raised
            msg = f"an undeclared {raised} raised by a responder comes out as {_desc(f)}; it must pass through untouched (and be reported as UNKNOWN by formatError)"
        else:
            ok = isinstance(v, Inst) and v.fields.get("errorCode") == want_code and v.fields.get("fatal") is False
            msg = f"a responder raising {raised} ({label}; the command declares MyError -> b'MYCODE') produces {_desc(f)}; the peer must get RemoteAmpError code {want_code!r}"
        ctx.check(k == "value" and k2 == "value" and ok, "responder/declared-errors", f"{Q}.CommandLocator._wrapWithSerialization | {label}", msg)


# ---- who may write (static, closed over private helpers) ---------------------------------------------------------------

def check_who_may_write(ctx, mod):
    allowed = {
        "_outstandingRequests": {"BoxDispatcher.__init__", "BoxDispatcher._sendBoxCommand", "BoxDispatcher._answerReceived", "BoxDispatcher._errorReceived", "BoxDispatcher.failAllOutgoing"},
        "_failAllReason": {"BoxDispatcher.failAllOutgoing"},
        "_counter": {"BoxDispatcher._nextTag"},
    }
    # callers of each method of the class (self.<name>(...) anywhere in the module)
    callers: Dict[str, set] = {}
    for qn, f in mod.functions():
        for c in ast.walk(f):
            if isinstance(c, ast.Call) and isinstance(c.func, ast.Attribute) and isinstance(c.func.value, ast.Name) and c.func.value.id == "self":
                callers.setdefault(c.func.attr, set()).add(qn)
            if isinstance(c, ast.Attribute) and isinstance(c.value, ast.Name) and c.value.id == "self" and not isinstance(getattr(c, "_parent", None), ast.Call):
                callers.setdefault(c.attr, set()).add(qn + " (as a value)")

    def permitted(func: str, attr: str, seen=()) -> bool:
        base = func.split(".")
        if func in allowed[attr] or any(func.startswith(a + ".") for a in allowed[attr]):
            return True
        name = base[-1]
        if not name.startswith("_") or name.startswith("__") or func in seen:
            return False
        cs = callers.get(name, set())
        return bool(cs) and all(" (as a value)" not in c and permitted(c, attr, seen + (func,)) for c in cs)

    acc = module_accesses(mod, set(allowed), receivers=None)
    n = 0
    for a in acc:
        n += 1
        ctx.check(a.recv == "self" and permitted(a.func, a.attr), "state/who-may-write", ctx.construct(f"{Q}.{a.func}", a.node),
                  f"{a.recv}.{a.attr} is modified here ({a.kind}); only {sorted(allowed[a.attr])} (or private helpers called from nowhere else) may do that - a pending call could "
                  "be dropped, re-registered or outlive the connection")
    ctx.floor("state/who-may-write", n, 5)


# ---- structural layer (for-all-paths verdicts on the normalised code) --------------------------------------------------

def _views(ctx, mod):
    from sa.props._lib_d import Inliner
    known = ["__init__", "_sendBoxCommand", "_answerReceived", "_errorReceived", "failAllOutgoing", "stopReceivingBoxes", "ampBoxReceived", "_commandReceived",
             "_nextTag", "callRemote", "callRemoteString", "dispatchCommand", "_safeEmit", "unhandledError", "startReceivingBoxes"]
    return Inliner(mod, ["BoxDispatcher"], known)


def _is_table(node, defs=None) -> bool:
    """self._outstandingRequests, or a local that is bound once, to exactly that (an alias of the same dict: what is popped from it is popped from the table)."""
    if isinstance(node, ast.Name) and defs and node.id in defs:
        return _is_table(defs[node.id])
    return isinstance(node, ast.Attribute) and node.attr == "_outstandingRequests" and isinstance(node.value, ast.Name) and node.value.id == "self"


def _detach_nodes(g, defs=None) -> List[int]:
    """CFG nodes that remove one entry from self._outstandingRequests (pop(key) / del [...]), also through an alias of the table."""
    def detaches(x):
        if isinstance(x, ast.Call) and isinstance(x.func, ast.Attribute) and x.func.attr == "pop" and _is_table(x.func.value, defs) and x.args:
            return True
        return isinstance(x, ast.Delete) and any(isinstance(t, ast.Subscript) and _is_table(t.value, defs) for t in x.targets)
    return g.find(detaches) + g.ids(lambda n: n.kind == "stmt" and isinstance(n.ast, ast.Delete) and detaches(n.ast))


def _table_escapes(f, defs) -> Optional[str]:
    """The table is handed to code the rule does not follow (an argument of a call, a value stored somewhere, a local re-bound more than once): an
    absence-based verdict about this function would not be justified."""
    for n in ast.walk(f):
        if isinstance(n, ast.Call):
            for a in list(n.args) + [k.value for k in n.keywords]:
                if any(_is_table(x, defs) and not isinstance(getattr(x, "_parent", None), ast.Attribute) for x in ast.walk(a)):
                    return f"passed to {src(n.func)}()"
        if isinstance(n, ast.Assign) and _is_table(n.value) and not (len(n.targets) == 1 and isinstance(n.targets[0], ast.Name) and defs and n.targets[0].id in defs):
            return f"stored by `{src(n)}`"
    return None


def _helper_detaches_on_every_path(ctx, cls_methods, name: str) -> Optional[bool]:
    h = cls_methods.get(name)
    if h is None:
        return None
    g = ctx.cfg(h)
    from sa.props._lib_g import must_pass as _mp, single_defs as _sd
    d = _detach_nodes(g, _sd(h))
    return bool(d) and _mp(g, [g.entry], d) is None


def check_structural(ctx, mod):
    from sa.astx import call_attr, call_name, walk_local
    from sa.props._lib_g import expand, must_pass as _mp, single_defs
    from sa.source import methods
    cls = ctx.cls(AMP, "BoxDispatcher")
    ms = methods(cls)
    inl = _views(ctx, mod)
    q = Q + ".BoxDispatcher"

    # (1) pop-before-fire: the pending Deferred is detached from the table on every path before callback/errback is invoked on it
    for fname in ("_answerReceived", "_errorReceived"):
        f = inl.view(ctx.func(AMP, f"BoxDispatcher.{fname}"))
        g = ctx.cfg(f)
        defs = single_defs(f)
        fires = []
        for n in g.ids(lambda n: n.ast is not None and n.kind in ("stmt", "test")):
            for x in walk_local(g.node(n).ast):
                if isinstance(x, ast.Call) and isinstance(x.func, ast.Attribute) and x.func.attr in ("callback", "errback"):
                    fires.append((n, x))
        detach = _detach_nodes(g, defs)
        decided = 0
        for n, call in fires:
            recv = call.func.value
            origin = expand(recv, defs) if isinstance(recv, ast.Name) else recv
            from_table = any(_is_table(x, defs) for x in ast.walk(origin))
            via_helper = [x for x in ast.walk(origin) if isinstance(x, ast.Call) and isinstance(x.func, ast.Attribute) and isinstance(x.func.value, ast.Name)
                          and x.func.value.id == "self" and x.func.attr in ms and x.func.attr.startswith("_")]
            cons = f"{q}.{fname} | <pending Deferred detached before it is fired>"
            if from_table and not detach and _table_escapes(f, defs):
                ctx.note(f"match/take-before-fire: {fname}: no pop/del recognised and the table is {_table_escapes(f, defs)}; clause left to the bounded rules match/fires-once")
                continue
            if from_table:
                decided += 1
                wit = g.must_precede(detach, [n]) if detach else [g.entry]
                # a pop inside the very expression that is fired (self._outstandingRequests.pop(k).callback(x)) precedes the call by evaluation order
                inline_pop = any(isinstance(x, ast.Call) and isinstance(x.func, ast.Attribute) and x.func.attr == "pop" and _is_table(x.func.value, defs) for x in ast.walk(call.func.value))
                ctx.check(inline_pop or (bool(detach) and wit is None), "match/take-before-fire", cons,
                          "the pending Deferred is fired while still registered in _outstandingRequests: a duplicate answer, or a connection loss inside its callback, fires it a second time",
                          witness=g.describe(wit) if detach and wit else "no pop/del of _outstandingRequests before the fire")
            elif via_helper:
                verdicts = [_helper_detaches_on_every_path(ctx, ms, x.func.attr) for x in via_helper]
                if any(v is True for v in verdicts):
                    decided += 1
                    ctx.ok("match/take-before-fire", cons, f"obtained from {via_helper[0].func.attr}(), which removes the entry on every path before returning it")
                elif detach and g.must_precede(detach, [n]) is None:
                    decided += 1
                    ctx.ok("match/take-before-fire", cons, "a pop/del precedes the fire on every path")
        if not decided:
            ctx.note(f"match/take-before-fire: no fire site on a value taken from _outstandingRequests recognised in {fname}; clause left to the bounded rules match/fires-once")

    # (2) failAllOutgoing: the reason is recorded and the table is swapped away before the first errback runs
    f = inl.view(ctx.func(AMP, "BoxDispatcher.failAllOutgoing"))
    g = ctx.cfg(f)
    reason = f.args.args[1].arg if len(f.args.args) > 1 else None
    callouts = g.find(lambda x: isinstance(x, ast.Call) and call_attr(x) == "errback")
    rec = g.ids(lambda n: n.kind == "stmt" and isinstance(n.ast, ast.Assign) and any(isinstance(t, ast.Attribute) and t.attr == "_failAllReason" for t in n.ast.targets))
    swap = g.ids(lambda n: n.kind == "stmt" and isinstance(n.ast, ast.Assign) and any(_is_table(e) for t in n.ast.targets for e in (t.elts if isinstance(t, ast.Tuple) else [t])))
    cq = q + ".failAllOutgoing"
    if callouts and rec:
        wit = g.must_precede(rec, callouts)
        ctx.check(wit is None, "drain/reason-recorded-first", cq + " | self._failAllReason",
                  "an errback can run before _failAllReason is recorded: a callRemote made from that errback is sent on the dead connection and never fails", witness=g.describe(wit))
    else:
        ctx.note("drain/reason-recorded-first: errback call-outs / the assignment of _failAllReason not recognised in failAllOutgoing; clause left to drain/reentrant-call (bounded)")
    if callouts and swap:
        wit = g.must_precede(swap, callouts)
        ctx.check(wit is None, "drain/table-reset-first", cq + " | self._outstandingRequests",
                  "an errback can run while the Deferreds are still registered: a late answer or a re-entrant failAllOutgoing fires them a second time", witness=g.describe(wit))
    elif callouts:
        ctx.violation("drain/table-reset-first", cq + " | self._outstandingRequests",
                      "failAllOutgoing never replaces self._outstandingRequests: the failed Deferreds stay registered and a late answer fires them a second time")
    else:
        ctx.note("drain/table-reset-first: shape not recognised; clause left to drain/fails-pending (bounded)")

    # (3) _sendBoxCommand: nothing is written to the box, sent or registered once the connection is lost
    f = inl.view(ctx.func(AMP, "BoxDispatcher._sendBoxCommand"))
    g = ctx.cfg(f)
    defs = single_defs(f)
    params = [a.arg for a in f.args.args]
    box = params[2] if len(params) > 2 else "box"

    def lost_guard(n) -> bool:
        for t, lab in g.edge_guards(n):
            te = expand(g.node(t).ast, defs)
            txt = src(te)
            if (txt in ("self._failAllReason is not None", "self._failAllReason") and lab == "F") or (txt == "self._failAllReason is None" and lab == "T"):
                return True
        return False
    touches = g.ids(lambda n: n.kind in ("stmt", "test") and n.ast is not None and (
        any(isinstance(x, ast.Subscript) and isinstance(x.ctx, ast.Store) and (src(x.value) == box or _is_table(x.value)) for x in walk_local(n.ast)) or
        any(isinstance(x, ast.Call) and call_name(x) in (f"{box}._sendTo",) for x in walk_local(n.ast))))
    tests = [t for t in g.ids(lambda n: n.kind == "test") if "self._failAllReason" in src(expand(g.node(t).ast, defs))]
    cq = q + "._sendBoxCommand"
    if touches and tests:
        for n in touches:
            ctx.check(lost_guard(n), "send/late-call-refused", ctx.construct(cq, g.node(n).ast).replace(src(g.node(n).ast), _role(g.node(n).ast, box)),
                      "this runs although the connection is already lost (_failAllReason set): the box is modified or sent, or a Deferred is registered that nothing will ever fire",
                      witness=g.describe(g.path([g.entry], [n])))
    elif touches:
        ctx.violation("send/late-call-refused", cq + " | <connection-lost test>", "_sendBoxCommand never tests self._failAllReason: calls made after the connection is lost "
                      "are sent into the void and their Deferred never fires")
    else:
        ctx.note("send/late-call-refused: send/registration sites not recognised in _sendBoxCommand; clause left to drain/late-call-fails (bounded)")


def check_structural_drain(ctx, mod):
    """Every normal path of the three connection-loss entry points reaches the next one (must-pass-through)."""
    from sa.astx import call_attr, call_name
    from sa.props._lib_g import must_pass as _mp
    for qual, pred, what in (
        ("BinaryBoxProtocol.connectionLost", lambda x: isinstance(x, ast.Call) and call_attr(x) == "stopReceivingBoxes" and len(x.args) == 1, "<box receiver>.stopReceivingBoxes(reason)"),
        ("AMP.connectionLost", lambda x: isinstance(x, ast.Call) and call_attr(x) == "connectionLost" and (
            call_name(x) == "BinaryBoxProtocol.connectionLost" or (isinstance(x.func.value, ast.Call) and call_name(x.func.value) == "super")), "BinaryBoxProtocol.connectionLost(self, reason)"),
        ("BoxDispatcher.stopReceivingBoxes", lambda x: isinstance(x, ast.Call) and call_attr(x) == "failAllOutgoing" and len(x.args) == 1, "self.failAllOutgoing(reason)"),
    ):
        f = ctx.func(AMP, qual)
        g = ctx.cfg(f)
        sites = g.find(pred)
        if not sites:
            ctx.note(f"drain/reaches-fail-all: no call of {what} recognised in {qual}; clause left to drain/fails-pending (bounded)")
            continue
        wit = _mp(g, [g.entry], sites)
        ctx.check(wit is None, "drain/reaches-fail-all", f"{Q}.{qual}", f"{qual} can return without calling {what}: pending callRemote Deferreds never fire after the connection is lost",
                  witness=g.describe(wit))


def check_structural_dispatch(ctx, mod, consts):
    """Dispatch precedence in ampBoxReceived: a box that carries an answer or error key belongs to a pending call whatever else it carries.  On the CFG
    (private helpers inlined, keys resolved through the module constants) every statement reached because the command key is present must lie on paths
    where the answer key and the error key are known to be absent."""
    from sa.astx import const_eval, NotConst, walk_local
    inl = _views(ctx, mod)
    f = inl.view(ctx.func(AMP, "BoxDispatcher.ampBoxReceived"))
    q = Q + ".BoxDispatcher.ampBoxReceived"
    g = ctx.cfg(f)
    box = f.args.args[1].arg if len(f.args.args) > 1 else "box"
    roles = {consts.get("ANSWER"): "answer", consts.get("ERROR"): "error", consts.get("COMMAND"): "command"}

    def fact(test, lab):
        """(role, key present?) established by taking edge `lab` of `test`, for tests of the form  KEY [not] in box  /  box.get(KEY) is [not] None."""
        flip = lab == "F"
        while isinstance(test, ast.UnaryOp) and isinstance(test.op, ast.Not):
            test, flip = test.operand, not flip
        if not (isinstance(test, ast.Compare) and len(test.ops) == 1):
            return None
        op, a, b = test.ops[0], test.left, test.comparators[0]
        key = present = None
        if isinstance(op, (ast.In, ast.NotIn)) and src(b) == box:
            key, present = a, isinstance(op, ast.In)
        elif isinstance(op, (ast.Is, ast.IsNot)) and isinstance(b, ast.Constant) and b.value is None and isinstance(a, ast.Call) and src(a.func) == f"{box}.get" and len(a.args) == 1:
            key, present = a.args[0], isinstance(op, ast.IsNot)
        if key is None:
            return None
        try:
            kv = const_eval(key, consts)
        except NotConst:
            return None
        if kv not in roles:
            return None
        return roles[kv], (present != flip)

    judged = 0
    for n in g.ids(lambda nd: nd.kind == "stmt" and nd.ast is not None):
        node = g.node(n).ast
        if not any(isinstance(x, ast.Call) for x in walk_local(node)) or isinstance(node, ast.Raise):
            continue
        facts = {fc for t, lab in g.edge_guards(n) for fc in [fact(g.node(t).ast, lab)] if fc is not None}
        if ("command", True) not in facts:
            continue
        judged += 1
        missing = [r for r in ("answer", "error") if (r, False) not in facts]
        ctx.check(not missing, "match/dispatch-precedence", ctx.construct(q, node),
                  f"this runs because the box carries the command key, on paths where the {' / '.join(missing)} key has not been ruled out: a reply that still carries the command key "
                  "(a responder echoing the request box) is dispatched as a new command, the pending call never gets its answer and the bogus reply reuses the peer's tag")
    if not judged:
        ctx.note("match/dispatch-precedence: no statement of ampBoxReceived recognised as guarded by the presence of the command key; clause left to match/reply-with-command-key (bounded)")


def _none_or_truth(test, lab, name):
    """What edge `lab` of `test` establishes about the local `name`: "none" (it is None), "notnone", "falsy", "truthy", or None."""
    flip = lab == "F"
    while isinstance(test, ast.UnaryOp) and isinstance(test.op, ast.Not):
        test, flip = test.operand, not flip
    if isinstance(test, ast.Name) and test.id == name:
        return "falsy" if flip else "truthy"
    if isinstance(test, ast.Compare) and len(test.ops) == 1:
        a, b, op = test.left, test.comparators[0], test.ops[0]
        if isinstance(a, ast.Constant) and a.value is None:
            a, b = b, a
        if isinstance(a, ast.Name) and a.id == name and isinstance(b, ast.Constant) and b.value is None:
            if isinstance(op, (ast.Is, ast.Eq)):
                return "notnone" if flip else "none"
            if isinstance(op, (ast.IsNot, ast.NotEq)):
                return "none" if flip else "notnone"
    return None


def check_structural_wiring(ctx, mod):
    """AMP.__init__ wires its collaborators: the box receiver handed to BinaryBoxProtocol.__init__ is the one startReceivingBoxes/stopReceivingBoxes (and with
    them the connection-loss clause) are called on, the locator handed to BoxDispatcher.__init__ finds the responders.  The default (the AMP object itself)
    may replace the argument only when the argument IS None - an application object that happens to be falsy (an empty registry, a dispatcher with
    __len__) must be kept.  Violation only for a positively recognised truthiness selection (`x or self`, `x if x else self`, `if not x: x = self`)."""
    from sa.props._lib_g import single_defs
    from sa.source import methods as _methods
    cls = ctx.cls(AMP, "AMP")
    f = _methods(cls).get("__init__")
    if f is None:
        ctx.note("wiring/default-by-identity: AMP defines no __init__; nothing to judge")
        return
    q = Q + ".AMP.__init__"
    g = ctx.cfg(f)
    params = [a.arg for a in f.args.args]
    defaults = dict(zip(params[len(params) - len(f.args.defaults):], f.args.defaults))
    wired = 0
    for n in g.ids(lambda nd: nd.kind == "stmt" and nd.ast is not None):
        for c in ast.walk(g.node(n).ast):
            if not (isinstance(c, ast.Call) and isinstance(c.func, ast.Attribute) and c.func.attr == "__init__" and isinstance(c.func.value, ast.Name) and len(c.args) == 2):
                continue
            base = mod.find(c.func.value.id)
            binit = _methods(base).get("__init__") if isinstance(base, ast.ClassDef) else None
            if binit is None or len(binit.args.args) != 2:
                continue
            role = binit.args.args[1].arg          # the collaborator this base class stores: boxReceiver / locator
            arg = c.args[1]
            cons = f"{q} | {role} handed to {c.func.value.id}.__init__"
            verdict = why = None

            def sel(e):
                """-> (verdict, why) for a selecting expression"""
                if isinstance(e, ast.BoolOp) and isinstance(e.op, ast.Or) and isinstance(e.values[0], ast.Name) and e.values[0].id in params and defaults.get(e.values[0].id) is not None \
                        and isinstance(defaults[e.values[0].id], ast.Constant) and defaults[e.values[0].id].value is None:
                    return False, f"`{src(e)}` keeps `{e.values[0].id}` only if it is truthy"
                if isinstance(e, ast.IfExp):
                    names = [x.id for x in ast.walk(e.test) if isinstance(x, ast.Name) and x.id in params]
                    for nm in names:
                        k = _none_or_truth(e.test, "T", nm)
                        if k in ("none", "notnone"):
                            return True, f"`{src(e)}` selects by identity with None"
                        if k in ("truthy", "falsy"):
                            return False, f"`{src(e)}` selects by the truth value of `{nm}`"
                return None, ""
            if isinstance(arg, ast.Name) and arg.id in params:
                # the parameter itself, possibly re-bound to the default before the call: every such re-binding must sit under `<param> is None`
                rebinds = [m for m in g.ids(lambda nd: nd.kind == "stmt" and isinstance(nd.ast, ast.Assign) and any(isinstance(t, ast.Name) and t.id == arg.id for t in nd.ast.targets))]
                verdict, why = True, "the argument is handed on as it is" if not rebinds else "re-bound to the default only where it is None"
                for m in rebinds:
                    val = g.node(m).ast.value
                    kinds = {_none_or_truth(g.node(t).ast, lab, arg.id) for t, lab in g.edge_guards(m)}
                    sv, sw = sel(val)
                    if sv is not None:
                        if not sv:
                            verdict, why = False, sw
                        continue
                    if "none" in kinds:
                        continue
                    if "falsy" in kinds:
                        verdict, why = False, f"`{src(g.node(m).ast)}` runs whenever `{arg.id}` is falsy, not only when it is None"
                    else:
                        verdict, why = None, f"`{src(g.node(m).ast)}` is not under a recognised test of `{arg.id}`"
                        break
            else:
                e = arg
                if isinstance(e, ast.Name) and e.id in single_defs(f):
                    e = single_defs(f)[e.id]
                verdict, why = sel(e)
            if verdict is None:
                ctx.note(f"wiring/default-by-identity: {cons}: selection `{src(arg)}` not recognised ({why}); clause left to wiring/falsy-collaborator-kept (bounded)")
                continue
            wired += 1
            ctx.check(verdict, "wiring/default-by-identity", cons,
                      f"{why}: an explicitly passed {role} that is falsy (an empty dict-like registry, a dispatcher defining __len__) is silently replaced by the AMP object itself"
                      + (" - startReceivingBoxes/stopReceivingBoxes never reach it, so its pending calls do not fail with the connection-loss reason" if role == "boxReceiver" else
                         " - commands it would have answered are reported as unhandled"), detail=why)
    if not wired:
        ctx.note("wiring/default-by-identity: no base-class constructor call recognised in AMP.__init__")


def check_structural_send_state(ctx, mod):
    """callRemote never raises for connection state while the connection exists: in BinaryBoxProtocol.sendBox (what _sendBoxCommand reaches through
    _sendTo) a connection-state exception is raised only where `self.transport is None` is established - before the connection is made, or after
    connectionLost, when _failAllReason already answers every call through its Deferred.  A raise reachable with a live transport (closing, paused,
    ...) turns 'fails through its Deferred, exactly once' into a synchronous exception."""
    from sa.props._lib_g import expand, single_defs
    f = ctx.func(AMP, "BinaryBoxProtocol.sendBox")
    q = Q + ".BinaryBoxProtocol.sendBox"
    g = ctx.cfg(f)
    defs = single_defs(f)

    def none_fact(test, lab) -> Optional[bool]:
        """True: the edge establishes `self.transport is None`; False: establishes it is not None."""
        flip = lab == "F"
        t = expand(test, defs)
        while isinstance(t, ast.UnaryOp) and isinstance(t.op, ast.Not):
            t, flip = t.operand, not flip
        if isinstance(t, ast.Compare) and len(t.ops) == 1:
            a, b = t.left, t.comparators[0]
            if isinstance(a, ast.Constant) and a.value is None:
                a, b = b, a
            if src(a) == "self.transport" and isinstance(b, ast.Constant) and b.value is None:
                if isinstance(t.ops[0], (ast.Is, ast.Eq)):
                    return not flip
                if isinstance(t.ops[0], (ast.IsNot, ast.NotEq)):
                    return flip
        if src(t) == "self.transport":      # truthiness
            return flip
        return None

    n = 0
    for i in g.ids(lambda nd: nd.kind == "stmt" and isinstance(nd.ast, ast.Raise) and nd.ast.exc is not None):
        r = g.node(i).ast
        e = r.exc.func if isinstance(r.exc, ast.Call) else r.exc
        name = src(e).split(".")[-1]
        if not name.startswith("Connection") and name not in ("NotConnected",):
            continue
        n += 1
        ok = any(none_fact(g.node(t).ast, lab) is True for t, lab in g.edge_guards(i))
        ctx.check(ok, "send/connection-state-never-raises", f"{q} | raise {name}",
                  f"`{src(r)}` is reachable while self.transport is still set (the guards on the way do not establish `self.transport is None`): a callRemote made while the "
                  "connection is going away raises synchronously instead of returning a Deferred that fails, exactly once, with the connection-loss reason")
    if not n:
        ctx.note("send/connection-state-never-raises: sendBox raises no connection-state exception")


def check_dispatch_and_wiring_evaluated(ctx, mod, consts):
    """Bounded twins: replies that still carry the command key are matched to the pending call; a falsy collaborator passed to AMP() is kept."""
    ASK, ANSWER, ERROR, COMMAND, EC, ED = (consts[k] for k in ("ASK", "ANSWER", "ERROR", "COMMAND", "ERROR_CODE", "ERROR_DESCRIPTION"))
    q = Q + ".BoxDispatcher.ampBoxReceived"
    for label, mk in (("an answer that still carries the command key", lambda tag: {ANSWER: tag, COMMAND: b"cmd", b"r": b"1"}),
                      ("an error that still carries the command key", lambda tag: {ERROR: tag, COMMAND: b"cmd", EC: b"MYCODE", ED: b"nope"})):
        w = World(ctx, mod, consts)
        disp = w.dispatcher()
        ran: List[int] = []
        w.responders[b"cmd"] = PyFn(lambda box, ran=ran, w=w: (ran.append(1), w.box({b"x": b"y"}))[1], "responder")
        k, d, b = w.call(disp, b"cmd")
        p = w.probe(d)
        nsent = len(w.sent())
        tag = w.sent()[0].data.get(ASK) if w.sent() else None
        k2, v2 = w.receive(disp, mk(tag))
        fired = len(p["ok"]) + len(p["err"])
        ctx.check(k == "value" and k2 == "value" and fired == 1 and not ran and len(w.sent()) == nsent, "match/reply-with-command-key", q + f" | {label}",
                  f"{label}: the pending call fired {fired} time(s), the responder for the command key ran {len(ran)} time(s) and {len(w.sent()) - nsent} box(es) were sent back "
                  f"({k2} {v2 if k2 != 'value' else ''}); the reply must go to the pending call and nothing else may happen")
    # AMP(boxReceiver=<falsy object>, locator=<falsy object>)
    q2 = Q + ".AMP.__init__"
    w = World(ctx, mod, consts)
    recv, loc = w.box({}), w.box({})          # dict-like application objects that are empty (falsy) when handed over
    a = Inst(w.cls["AMP"])
    k, v = w.run("AMP.__init__", lambda: w.ev.method(a, "__init__", [recv, loc]))
    for role, want in (("boxReceiver", recv), ("locator", loc)):
        got = a.fields.get(role, "<unset>")
        ctx.check(k == "value" and got is want, "wiring/falsy-collaborator-kept", q2 + f" | {role}",
                  f"AMP(boxReceiver=<empty registry>, locator=<empty registry>) {'raises ' + str(v) if k != 'value' else 'stores'} {'itself' if got is a else repr(got)} as its {role}: "
                  "the object the application passed is dropped because it is falsy")
    a2 = Inst(w.cls["AMP"])
    k, v = w.run("AMP.__init__", lambda: w.ev.method(a2, "__init__", []))
    ctx.check(k == "value" and a2.fields.get("boxReceiver") is a2 and a2.fields.get("locator") is a2, "wiring/falsy-collaborator-kept", q2 + " | defaults",
              f"AMP() without arguments must be its own box receiver and locator; got {a2.fields.get('boxReceiver')!r} / {a2.fields.get('locator')!r} ({k})")


def check_closing_window(ctx, mod, consts):
    """Bounded: the local side asked the transport to close, connectionLost has not been delivered yet; a call made in that window returns a Deferred
    that fails exactly once when the loss is reported.  The real BinaryBoxProtocol.sendBox is interpreted (the AMP instance is its own box sender)."""
    q = Q + ".BoxDispatcher._sendBoxCommand"
    for label, tattrs in (("transport open", {"disconnecting": False, "disconnected": False}), ("local close requested, connectionLost not yet delivered", {"disconnecting": True, "disconnected": False})):
        w = World(ctx, mod, consts)
        tr = Stub("transport", attrs=dict(tattrs))
        a = Inst(w.cls["AMP"], boxReceiver=None, locator=w.locator, _outstandingRequests={}, transport=tr, _transportPeer="peer", _transportHost="host", _ampInitialized=True)
        a.fields["boxReceiver"] = a
        a.fields["boxSender"] = a
        k, d, b = w.call(a, b"during")
        p = w.probe(d)
        bad = None
        if k != "value" or not isinstance(d, DeferredModel):
            bad = f"callRemote with the {label} {'raises ' + str(d) if k == 'raised' else 'returns ' + repr(d)} instead of returning a Deferred"
        elif d.called:
            bad = f"the Deferred of a call made with the {label} has already fired before the connection was lost"
        else:
            reason = FailureModel(w, OpaqueInst(Opaque("ConnectionDone")))
            k2, v2 = w.run("AMP.connectionLost", lambda: w.ev.method(a, "connectionLost", [reason]))
            if k2 != "value":
                bad = f"connectionLost raises {v2}"
            elif len(p["err"]) != 1 or p["ok"] or w.double_fires:
                bad = f"after connectionLost the call made with the {label} has {len(p['err'])} failures and {len(p['ok'])} results (exactly one failure is required)"
        ctx.check(bad is None, "send/call-while-closing", q + f" | {label}", bad or "")


_LENIENT = ("replace", "ignore", "backslashreplace", "xmlcharrefreplace", "surrogateescape", "surrogatepass", "namereplace")


def check_structural_formatters(ctx, mod):
    """Every command that asks for an answer gets exactly one answer or error box: the functions that turn the responder's result or failure into
    that box (the callbacks _commandReceived adds to the responder's Deferred) are total.  Decided for the may-raise sites recognised positively:
    a strict .encode()/.decode() of text that comes from the failure, and explicit raise statements, outside a handler that converts them."""
    f = ctx.func(AMP, "BoxDispatcher._commandReceived")
    q = Q + ".BoxDispatcher._commandReceived"
    nested = {n.name: n for n in ast.walk(f) if isinstance(n, (ast.FunctionDef, ast.Lambda)) and n is not f and hasattr(n, "name")}
    used: List[ast.FunctionDef] = []
    for c in ast.walk(f):
        if isinstance(c, ast.Call) and isinstance(c.func, ast.Attribute) and c.func.attr in ("addCallbacks", "addCallback", "addErrback", "addBoth"):
            for a in list(c.args) + [k.value for k in c.keywords]:
                if isinstance(a, ast.Name) and a.id in nested and not any(nested[a.id] is u for u in used):
                    used.append(nested[a.id])
    if not used:
        ctx.note("reply/formatter-total: _commandReceived adds no locally defined callback; clause left to the reply scenarios")
        return
    for fn in used:
        g = ctx.cfg(fn)
        cons = f"{q}.{fn.name}"
        bad = None
        for n in ast.walk(fn):
            if isinstance(n, ast.Raise):
                bad = bad or f"`{src(n)}`"
            if isinstance(n, ast.Call) and isinstance(n.func, ast.Attribute) and n.func.attr in ("encode", "decode") and not isinstance(n.func.value, ast.Constant):
                errs = n.args[1] if len(n.args) > 1 else next((k.value for k in n.keywords if k.arg == "errors"), None)
                lenient = isinstance(errs, ast.Constant) and errs.value in _LENIENT
                if lenient:
                    continue
                handled = False
                for i in g.ids_of(n):
                    hs = [g.node(h).ast for h, l in g.succ[i] if l == "exc" and g.node(h).kind == "handler"]
                    for h in hs:
                        ts = [] if h.type is None else (h.type.elts if isinstance(h.type, ast.Tuple) else [h.type])
                        names = {src(t).split(".")[-1] for t in ts}
                        if h.type is None or names & {"UnicodeError", "UnicodeEncodeError", "UnicodeDecodeError", "ValueError", "Exception", "BaseException"}:
                            handled = True
                if not handled:
                    bad = bad or (f"`{src(n)}` is a strict {n.func.attr}: text that cannot be encoded (a lone surrogate from a file name or a decoded byte string in an error "
                                  f"message) raises Unicode{'En' if n.func.attr == 'encode' else 'De'}codeError inside {fn.name}")
        ctx.check(bad is None, "reply/formatter-total", cons, (bad or "") + ": no answer or error box is produced for the command, the failure goes to unhandledError and the "
                  "connection is dropped with every pending call of both peers")


def _role(st, box) -> str:
    t = src(st)
    if "_outstandingRequests" in t:
        return "<registration of the pending Deferred>"
    if "._sendTo(" in t:
        return "<the box is sent>"
    return "<the box is modified: " + t.split("=")[0].strip() + ">"


def check(ctx):
    mod = ctx.mod(AMP)
    consts = module_consts(mod)
    with ctx.section("structural layer"):
        check_structural(ctx, mod)
    with ctx.section("structural drain"):
        check_structural_drain(ctx, mod)
    with ctx.section("structural reply formatters"):
        check_structural_formatters(ctx, mod)
    with ctx.section("structural send state"):
        check_structural_send_state(ctx, mod)
    with ctx.section("structural dispatch precedence"):
        check_structural_dispatch(ctx, mod, consts)
    with ctx.section("structural wiring"):
        check_structural_wiring(ctx, mod)
    with ctx.section("dispatch and wiring evaluated"):
        check_dispatch_and_wiring_evaluated(ctx, mod, consts)
    with ctx.section("matching"):
        check_matching(ctx, mod, consts)
    with ctx.section("closing window"):
        check_closing_window(ctx, mod, consts)
    with ctx.section("disconnect"):
        check_disconnect(ctx, mod, consts)
    with ctx.section("replies"):
        check_replies(ctx, mod, consts)
    with ctx.section("error translation"):
        check_error_translation(ctx, mod, consts)
    with ctx.section("who-may-write"):
        check_who_may_write(ctx, mod)


MUTANTS = [
    # dispatch precedence and collaborator wiring
    Mutant("error-key-tested-only-after-the-command-key", AMP, "        elif ERROR in box:\n            self._errorReceived(box)\n        elif COMMAND in box:\n            self._commandReceived(box)\n",
           "        elif COMMAND in box:\n            self._commandReceived(box)\n        elif ERROR in box:\n            self._errorReceived(box)\n", expect_rule="match/dispatch-precedence"),
    Mutant("command-guard-clause-before-the-reply-tests", AMP, "        if ANSWER in box:\n            self._answerReceived(box)\n        elif ERROR in box:\n            self._errorReceived(box)\n        elif COMMAND in box:\n            self._commandReceived(box)\n        else:\n            raise NoEmptyBoxes(box)\n",
           "        if box.get(COMMAND) is not None and ANSWER not in box:\n            self._commandReceived(box)\n            return\n        if ANSWER in box:\n            self._answerReceived(box)\n        elif ERROR in box:\n            self._errorReceived(box)\n        else:\n            raise NoEmptyBoxes(box)\n",
           expect_rule="match/reply-with-command-key"),
    Mutant("box-receiver-defaulted-whenever-falsy", AMP, "        if boxReceiver is None:\n            boxReceiver = self\n", "        if not boxReceiver:\n            boxReceiver = self\n", expect_rule="wiring/default-by-identity"),
    Mutant("locator-chosen-by-a-truthiness-conditional", AMP, "        if locator is None:\n            locator = self\n        BoxDispatcher.__init__(self, locator)\n",
           "        BoxDispatcher.__init__(self, locator if locator else self)\n", expect_rule="wiring/falsy-collaborator-kept"),
    Mutant("pending-looked-up-through-a-local-but-never-removed", AMP, "        question = self._outstandingRequests.pop(box[ANSWER])\n", "        waiting = self._outstandingRequests\n        question = waiting[box[ANSWER]]\n",
           expect_rule="match/take-before-fire"),
    Mutant("pending-removed-through-a-local-only-after-the-fire", AMP, "        question = self._outstandingRequests.pop(box[ERROR])\n", "        waiting = self._outstandingRequests\n        question = waiting[box[ERROR]]\n",
           more=[(AMP, "        question.errback(Failure(exc))\n", "        question.errback(Failure(exc))\n        del waiting[box[ERROR]]\n")], expect_rule="match/take-before-fire"),
    Mutant("safe-emit-suppresses-only-protocol-switched", AMP, "        except (ProtocolSwitched, ConnectionLost):\n            pass\n", "        except ProtocolSwitched:\n            pass\n", expect_rule="reply/emit-on-dead-connection"),
    Mutant("safe-emit-suppresses-everything", AMP, "        try:\n            aBox._sendTo(self.boxSender)\n        except (ProtocolSwitched, ConnectionLost):\n            pass\n",
           "        with suppress(Exception):\n            aBox._sendTo(self.boxSender)\n", more=[(AMP, "from functools import partial\n", "from contextlib import suppress\nfrom functools import partial\n")],
           expect_rule="reply/emit-on-dead-connection"),
    # a call made while the connection is going away fails through its Deferred; the reply formatters are total
    Mutant("sendbox-refuses-on-unconnected-flag", AMP, "        if self.transport is None:\n            raise ConnectionLost()\n", "        if self.transport is None or not self.transport.connected:\n            raise ConnectionLost()\n",
           expect_rule="send/connection-state-never-raises"),
    Mutant("sendbox-refuses-while-disconnecting-second-test", AMP, "        if self.transport is None:\n            raise ConnectionLost()\n",
           "        if self.transport is None:\n            raise ConnectionLost()\n        if self.transport.disconnecting:\n            raise ConnectionLost()\n", expect_rule="send/call-while-closing"),
    Mutant("error-description-strict-ascii", AMP, '                    desc = desc.encode("utf-8", "replace")\n', '                    desc = desc.encode("ascii")\n', expect_rule="reply/formatter-total"),
    Mutant("error-description-errors-keyword-strict", AMP, '                    desc = desc.encode("utf-8", "replace")\n', '                    desc = desc.encode("utf-8", errors="strict")\n', expect_rule="reply/declared-error"),
    Mutant("answer-read-not-popped", AMP, "        question = self._outstandingRequests.pop(box[ANSWER])\n", "        question = self._outstandingRequests[box[ANSWER]]\n",
           expect_rule=None),
    Mutant("error-popped-after-fire", AMP, "        question = self._outstandingRequests.pop(box[ERROR])\n", "        question = self._outstandingRequests[box[ERROR]]\n",
           more=[(AMP, "        question.errback(Failure(exc))\n", "        question.errback(Failure(exc))\n        del self._outstandingRequests[box[ERROR]]\n")],
           expect_rule=None),
    Mutant("error-looked-up-by-code", AMP, "        question = self._outstandingRequests.pop(box[ERROR])\n", "        question = self._outstandingRequests.pop(box[ERROR_CODE])\n",
           expect_rule=None),
    Mutant("table-not-reset-on-disconnect", AMP, "        self._outstandingRequests = None  # we can never send another request\n", "", expect_rule=None),
    Mutant("reason-recorded-after-errbacks", AMP, "        self._failAllReason = reason\n        OR = self._outstandingRequests.items()\n", "        OR = self._outstandingRequests.items()\n",
           more=[(AMP, "        for key, value in OR:\n            value.errback(reason)\n", "        for key, value in OR:\n            value.errback(reason)\n        self._failAllReason = reason\n")],
           expect_rule=None),
    Mutant("late-no-answer-call-falls-through", AMP, "                return fail(self._failAllReason)\n            else:\n                return None\n", "                return fail(self._failAllReason)\n",
           expect_rule=None),
    Mutant("registered-under-command-name", AMP, "            result = self._outstandingRequests[tag] = Deferred()\n", "            result = self._outstandingRequests[command] = Deferred()\n",
           expect_rule=None),
    Mutant("stop-receiving-skipped-when-switched", AMP, "        self.boxReceiver.stopReceivingBoxes(failReason)\n", "        if self.innerProtocol is None:\n            self.boxReceiver.stopReceivingBoxes(failReason)\n",
           expect_rule=None),
    Mutant("undeclared-error-reported-unhandled", AMP, "                code = UNKNOWN_ERROR_CODE\n", "                code = UNHANDLED_ERROR_CODE\n", expect_rule=None),
    Mutant("answer-tagged-with-command", AMP, "            answerBox[ANSWER] = box[ASK]\n", "            answerBox[ANSWER] = box[COMMAND]\n", expect_rule=None),
    Mutant("unknown-code-becomes-remote-error", AMP, "            errorType = self.reverseErrors.get(rje.errorCode, UnknownRemoteError)\n",
           "            errorType = self.reverseErrors.get(rje.errorCode, RemoteAmpError)\n", expect_rule=None),
    Mutant("second-writer-clears-table", AMP, "    def unhandledError(self, failure):\n        \"\"\"\n        This is a terminal callback called after application code has had a\n",
           "    def unhandledError(self, failure):\n        \"\"\"\n        This is a terminal callback called after application code has had a\n".replace(
               "    def unhandledError(self, failure):\n", "    def _forget(self):\n        self._outstandingRequests.clear()\n\n    def unhandledError(self, failure):\n"),
           expect_rule=None),
    Mutant("error-dispatched-as-answer", AMP, "        elif ERROR in box:\n            self._errorReceived(box)\n", "        elif ERROR in box:\n            self._answerReceived(box)\n", expect_rule=None),
]

SILENT = [
    Silent("command-test-first-but-only-for-boxes-without-reply-keys", AMP, "        if ANSWER in box:\n            self._answerReceived(box)\n        elif ERROR in box:\n            self._errorReceived(box)\n        elif COMMAND in box:\n            self._commandReceived(box)\n        else:\n            raise NoEmptyBoxes(box)\n",
           "        if COMMAND in box and ANSWER not in box and ERROR not in box:\n            self._commandReceived(box)\n        elif ANSWER in box:\n            self._answerReceived(box)\n        elif ERROR in box:\n            self._errorReceived(box)\n        else:\n            raise NoEmptyBoxes(box)\n"),
    Silent("collaborators-defaulted-by-identity-in-conditional-expressions", AMP, "        if boxReceiver is None:\n            boxReceiver = self\n        if locator is None:\n            locator = self\n        BoxDispatcher.__init__(self, locator)\n        BinaryBoxProtocol.__init__(self, boxReceiver)\n",
           "        receiver = self if boxReceiver is None else boxReceiver\n        BoxDispatcher.__init__(self, locator if locator is not None else self)\n        BinaryBoxProtocol.__init__(self, receiver)\n"),
    Silent("pending-table-read-into-a-local-before-the-pop", AMP, "        question = self._outstandingRequests.pop(box[ANSWER])\n", "        waiting = self._outstandingRequests\n        question = waiting.pop(box[ANSWER])\n",
           more=[(AMP, "        question = self._outstandingRequests.pop(box[ERROR])\n", "        waiting = self._outstandingRequests\n        tag = box[ERROR]\n        question = waiting[tag]\n        del waiting[tag]\n")]),
    Silent("safe-emit-with-contextlib-suppress", AMP, "        try:\n            aBox._sendTo(self.boxSender)\n        except (ProtocolSwitched, ConnectionLost):\n            pass\n",
           "        with suppress(ProtocolSwitched, ConnectionLost):\n            aBox._sendTo(self.boxSender)\n", more=[(AMP, "from functools import partial\n", "from contextlib import suppress\nfrom functools import partial\n")]),
    Silent("safe-emit-with-private-contextmanager", AMP, "        try:\n            aBox._sendTo(self.boxSender)\n        except (ProtocolSwitched, ConnectionLost):\n            pass\n",
           "        with _ignoringSendErrors():\n            aBox._sendTo(self.boxSender)\n",
           more=[(AMP, "from functools import partial\n", "from contextlib import contextmanager\nfrom functools import partial\n"),
                 (AMP, "class BoxDispatcher:\n", "@contextmanager\ndef _ignoringSendErrors():\n    try:\n        yield\n    except (ProtocolSwitched, ConnectionLost):\n        pass\n\n\nclass BoxDispatcher:\n")]),
    Silent("error-description-backslashreplace", AMP, '                    desc = desc.encode("utf-8", "replace")\n', '                    desc = desc.encode("utf-8", errors="backslashreplace")\n'),
    Silent("error-description-strict-with-fallback", AMP, '                    desc = desc.encode("utf-8", "replace")\n',
           '                    try:\n                        desc = desc.encode("utf-8")\n                    except UnicodeEncodeError:\n                        desc = desc.encode("utf-8", "replace")\n'),
    Silent("sendbox-transport-through-a-local", AMP, "        if self.transport is None:\n            raise ConnectionLost()\n", "        transport = self.transport\n        if transport is None:\n            raise ConnectionLost()\n",
           more=[(AMP, "            self.transport.write(box.serialize())\n", "            transport.write(box.serialize())\n")]),
    Silent("sendbox-connection-test-inverted", AMP, "        if self.transport is None:\n            raise ConnectionLost()\n        if self._startingTLSBuffer is not None:\n            self._startingTLSBuffer.append(box)\n        else:\n            self.transport.write(box.serialize())\n",
           "        if self.transport is not None:\n            if self._startingTLSBuffer is not None:\n                self._startingTLSBuffer.append(box)\n            else:\n                self.transport.write(box.serialize())\n            return\n        raise ConnectionLost()\n"),
    Silent("question-claimed-by-helper", AMP, "        question = self._outstandingRequests.pop(box[ANSWER])\n        question.addErrback(self.unhandledError)\n        question.callback(box)\n",
           "        self._take(box, ANSWER).callback(box)\n\n    def _take(self, box, key):\n        pending = self._outstandingRequests.pop(box[key])\n        pending.addErrback(self.unhandledError)\n        return pending\n",
           more=[(AMP, "        question = self._outstandingRequests.pop(box[ERROR])\n        question.addErrback(self.unhandledError)\n", "        question = self._take(box, ERROR)\n")]),
    Silent("dispatch-over-a-table", AMP, "        if ANSWER in box:\n            self._answerReceived(box)\n        elif ERROR in box:\n            self._errorReceived(box)\n        elif COMMAND in box:\n            self._commandReceived(box)\n        else:\n            raise NoEmptyBoxes(box)\n",
           "        for key, handler in ((ANSWER, self._answerReceived), (ERROR, self._errorReceived), (COMMAND, self._commandReceived)):\n            if key in box:\n                return handler(box)\n        raise NoEmptyBoxes(box)\n"),
    Silent("send-with-guard-clauses", AMP, "        box[COMMAND] = command\n        tag = self._nextTag()\n        if requiresAnswer:\n            box[ASK] = tag\n        box._sendTo(self.boxSender)\n        if requiresAnswer:\n            result = self._outstandingRequests[tag] = Deferred()\n        else:\n            result = None\n        return result\n",
           "        box[COMMAND] = command\n        tag = self._nextTag()\n        if not requiresAnswer:\n            box._sendTo(self.boxSender)\n            return None\n        box[ASK] = tag\n        box._sendTo(self.boxSender)\n        pending = Deferred()\n        self._outstandingRequests[tag] = pending\n        return pending\n"),
    Silent("reply-formatters-as-methods", AMP, "            deferred.addCallbacks(formatAnswer, formatError)\n", "            deferred.addCallbacks(lambda r: formatAnswer(r), lambda f: formatError(f))\n"),
    Silent("read-then-del", AMP, "        question = self._outstandingRequests.pop(box[ANSWER])\n",
           "        question = self._outstandingRequests[box[ANSWER]]\n        del self._outstandingRequests[box[ANSWER]]\n"),
    Silent("snapshot-values-renamed", AMP, "        OR = self._outstandingRequests.items()\n", "        pending = list(self._outstandingRequests.values())\n",
           more=[(AMP, "        for key, value in OR:\n            value.errback(reason)\n", "        for d in pending:\n            d.errback(reason)\n")]),
    Silent("lost-test-inverted", AMP, "        if self._failAllReason is not None:\n            if requiresAnswer:\n                return fail(self._failAllReason)\n            else:\n                return None\n",
           "        if self._failAllReason is not None:\n            return fail(self._failAllReason) if requiresAnswer else None\n"),
    Silent("fail-all-reordered", AMP, "        self._failAllReason = reason\n        OR = self._outstandingRequests.items()\n", "        OR = self._outstandingRequests.items()\n        self._failAllReason = reason\n"),
]
