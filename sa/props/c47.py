"""C47 - PROXY protocol wrapper: header recognised however it is segmented, only payload bytes reach the application."""
from __future__ import annotations

import ast
import struct

from sa.astx import NotConst, call_name, src, walk_local
from sa.effects import class_accesses
from sa.selftest import Mutant, Silent
from sa.source import class_assigns
from sa.props._lib_d import (NONNULL, call_nodes, calls_with, const_value_is, handler_names, implied, local_def, path_under, peval,
                             reach_under, self_assigns, slice_parts, succ_of, test_value)
from sa.props._lib_d import must_pass_under as _must_pass_under
from sa.props._lib_d import Views
from sa.props._lib_d import MiniVM, VMError, VMRaise, VMStub, _NativeRaise
from sa.source import AnalysisError

PROPERTY = "C47"
W = "protocols/haproxy/_wrapper.py"
V1 = "protocols/haproxy/_v1parser.py"
V2 = "protocols/haproxy/_v2parser.py"
TECHNIQUE = "CFG evaluation on header prefixes; interpreted multi-call segmentation runs; ordering; tables"
EXPLANATION = (
    "Decides: (a) the version-sniffing branches of HAProxyProtocolWrapper.dataReceived, evaluated along the CFG on every proper "
    "prefix of sample valid v1/v2 headers as first segment, must not reach the reject exit (today they do: finding F47), whole "
    "headers select the matching parser, and first segments that cannot start a header are closed without reaching the "
    "application; V1Parser.feed / V2Parser.feed evaluated the same way wait for an incomplete header, hand a just-completed one "
    "to parse(), split header from payload at the right place, and V2Parser.feed's short-buffer reject is unreachable behind the "
    "wrapper's minimum length; (b) bytes reach the wrapped protocol only as pass-through once _proxyInfo is set or as the "
    "'remaining' part returned by parser.feed(data); InvalidProxyHeader from feed closes the connection and forwards nothing; the "
    "chosen parser is stored for later segments; getPeer/getHost return source/destination; (c) ADDRESSFORMATS has a row of the "
    "size the specification gives for every family|protocol, its width is the slice width, PREFIX/PROXYSTR/version constants of "
    "wrapper and parsers agree, the v1 protocol literals are all allowed, parsed source/destination fields land in the matching "
    "slot; (d) segmentation invariance with state carried across calls: wrapper, V1Parser, V2Parser and the exception classes are "
    "interpreted together from their sources (no import of twisted) on each sample header followed by three payloads, delivered at once "
    "and in every 2-way and many 3-way segmentations whose first segment is long enough for the sniff (>= 8 / >= 16 bytes, so that the "
    "F47 constructs stay separate), all attributes threaded from call to call; (header given to parse, bytes forwarded, closed) must "
    "equal the whole-stream result. Informational only: .decode()/int() outside convertError (the exception still closes the connection). Not decided: "
    "equality of parsed addresses with the header's for all inputs."
)
ASSUMPTIONS = [
    "transports never deliver an empty segment",
    "sample headers (v1 TCP4/TCP6/UNKNOWN, v2 INET/INET6/UNIX/LOCAL, with and without payload) are representative of the grammar for the sniffing decision, which only looks at the first 16 bytes",
]
Q = "twisted.protocols.haproxy."
QW = Q + "_wrapper.HAProxyProtocolWrapper."

# methods the rules are written against; any other private method of these classes is a helper introduced later and is analysed as
# if inlined at its call sites (sa.props._lib_d.Inliner / Views)
KNOWN = {'protocols/haproxy/_v1parser.py': {'V1Parser': ['__init__', 'feed', 'parse']},
 'protocols/haproxy/_v2parser.py': {'V2Parser': ['__init__', '_bytesToIPv4', '_bytesToIPv6', 'feed', 'parse']},
 'protocols/haproxy/_wrapper.py': {'HAProxyProtocolWrapper': ['__init__', 'dataReceived', 'getHost', 'getPeer']}}


def _views(ctx):
    v = ctx.__dict__.get("_views_d")
    if v is None:
        v = ctx.__dict__["_views_d"] = Views(ctx, KNOWN)
    return v


def _F(ctx, rel, qual):
    return _views(ctx).f(rel, qual)


def _M(ctx, rel, cls_name):
    return _views(ctx).methods(rel, cls_name)


V1_SAMPLES = {
    "TCP4": b"PROXY TCP4 192.0.2.1 198.51.100.7 56324 443\r\n",
    "TCP6": b"PROXY TCP6 2001:db8::1 2001:db8::2 56324 443\r\n",
    "UNKNOWN": b"PROXY UNKNOWN\r\n",
}
_SIG = b"\r\n\r\n\x00\r\nQUIT\n"
V2_SAMPLES = {
    "INET/STREAM": _SIG + b"\x21\x11" + struct.pack("!H", 12) + bytes([192, 0, 2, 1, 198, 51, 100, 7]) + struct.pack("!HH", 56324, 443),
    "INET6/DGRAM+TLV": _SIG + b"\x21\x22" + struct.pack("!H", 36 + 7) + bytes(range(16)) + bytes(range(16, 32)) + struct.pack("!HH", 1, 2) + b"\x04\x00\x04abcd",
    "UNIX/STREAM": _SIG + b"\x21\x31" + struct.pack("!H", 216) + b"/a".ljust(108, b"\0") + b"/b".ljust(108, b"\0"),
    "LOCAL": _SIG + b"\x20\x00" + struct.pack("!H", 0),
}
GARBAGE = [b"GET / HTTP/1.1\r\nHost: x\r\n\r\n", b"PROXZ TCP4 192.0.2.1 198.51.100.7 1 2\r\n", _SIG + b"\x11\x11" + struct.pack("!H", 12) + bytes(12),
           b"\x16\x03\x01\x02\x00\x01\x00\x01\xfc\x03\x03" + bytes(20), _SIG[:11] + b"X" + b"\x21\x11\x00\x0c" + bytes(12)]


def must_pass_under(g, facts, via, srcs=None, to=None):
    via = list(via)
    w = _must_pass_under(g, facts, via, srcs=srcs, to=to)
    if w is None and not (reach_under(g, facts, srcs=srcs) & set(via)):
        return list(srcs)[:1] if srcs else [g.entry]
    return w


def _ranges(ks):
    ks = sorted(ks)
    out, i = [], 0
    while i < len(ks):
        j = i
        while j + 1 < len(ks) and ks[j + 1] == ks[j] + 1:
            j += 1
        out.append(f"{ks[i]}..{ks[j]}" if j > i else f"{ks[i]}")
        i = j + 1
    return ",".join(out)


def _raises(g, name):
    return [n.id for n in g.nodes if n.kind == "stmt" and g.reachable(n.id) and isinstance(n.ast, ast.Raise) and n.ast.exc is not None and name in src(n.ast.exc)]


def _consts(ctx):
    out = {}
    for rel, cls, names in ((V1, "V1Parser", ("PROXYSTR", "NEWLINE", "UNKNOWN_PROTO", "TCP4_PROTO", "TCP6_PROTO")), (V2, "V2Parser", ("PREFIX",))):
        ca = class_assigns(ctx.cls(rel, cls))
        env = {}
        for n in names:
            try:
                env[n] = peval(ca[n], env)
            except (KeyError, NotConst):
                ctx.need(None, f"{cls}.{n} constant")
        for n, v in env.items():
            out[f"{cls}.{n}"] = v
    return out


# ---- segmentation invariance with state carried across calls (wrapper + parsers interpreted together) -----------------------------

class _App(VMStub):
    def __init__(self):
        self.data = b""
        self.calls = 0

    def dataReceived(self, d):
        self.data += d
        self.calls += 1


def _drive(ctx, chunks):
    """Interpret HAProxyProtocolWrapper (with V1Parser / V2Parser / the exception classes from their own sources) on a sequence
    of deliveries to one fresh wrapper object; every attribute of wrapper and parser is carried from call to call.  parse() is
    replaced by a marker carrying the header it was given (parse is a pure function of it)."""
    closed = []
    sib = {"._v1parser": ctx.mod(V1), "._v2parser": ctx.mod(V2), "._exceptions": ctx.mod("protocols/haproxy/_exceptions.py")}
    vm = MiniVM(ctx.mod(W), siblings=sib, hooks={"loseConnection": lambda vm_, o: closed.append(1), "parse": lambda vm_, o, line: ("INFO", bytes(line))})
    app = _App()
    w = vm.new(vm.cls("HAProxyProtocolWrapper"), None, app)
    w.attrs["wrappedProtocol"] = app
    for c in chunks:
        if closed:
            break
        vm.call_method(w, "dataReceived", c)
    return (w.attrs.get("_proxyInfo"), app.data, bool(closed))


def _cuts(stream, hlen, first_min, thorough):
    n = len(stream)
    two = [(i,) for i in range(first_min, n)]
    hot = sorted({i for i in list(range(first_min, first_min + 10)) + list(range(hlen - 3, hlen + 4)) + [(first_min + hlen) // 2, n - 1] if first_min <= i < n})
    pool = list(range(first_min, n)) if thorough and n <= 70 else hot
    three = [(i, j) for i in pool for j in pool if i < j]
    return two + three


def _segmentation(ctx):
    total = 0
    payloads = [b"hello", b"", b"a\r\nb\r\n"]
    for ver, samples, first_min in (("v1", V1_SAMPLES, 8), ("v2", V2_SAMPLES, 16)):
        for name, h in samples.items():
            for pl in payloads:
                stream = h + pl
                label = f"{ver} {name} header + payload {pl!r}"
                with ctx.section("segmentation " + label):
                    c = QW + f"dataReceived | <{label}, first segment >= {first_min} bytes>"
                    try:
                        whole = _drive(ctx, [stream])
                        want_hdr = h[:-2] if ver == "v1" else h
                        ctx.check(whole == (("INFO", want_hdr), pl, False), "segmentation/whole-stream", c,
                                  f"delivered in one segment, header + payload give (info, forwarded, closed) = {whole!r}; expected the header parsed, "
                                  f"exactly {pl!r} forwarded, connection open")
                        bad = None
                        n = 0
                        for cuts in _cuts(stream, len(h), first_min, ctx.tier == "thorough"):
                            pts = (0,) + cuts + (len(stream),)
                            chunks = [stream[a:b] for a, b in zip(pts, pts[1:])]
                            got = _drive(ctx, chunks)
                            n += 1
                            if got != whole:
                                bad = (chunks, got)
                                break
                        total += n
                    except VMError as e:
                        raise AnalysisError(f"haproxy wrapper/parsers: construct outside the interpreter's subset: {e}")
                    except (VMRaise, _NativeRaise) as e:
                        ctx.violation("segmentation/invariant", c, f"interpreting the wrapper on {stream[:40]!r}... raises {e}")
                        continue
                    ctx.check(bad is None, "segmentation/invariant", c,
                              "what the application sees depends on how header + payload are cut into segments (first segment long enough for the "
                              "version sniff): " + (f"delivered as {[bytes(x[:24]) + (b'...' if len(x) > 24 else b'') for x in bad[0]]!r} -> (info, forwarded, closed) = "
                                                    f"{bad[1]!r}; delivered at once -> {whole!r}" if bad else ""),
                              detail=f"{n} segmentations agree with whole-stream delivery")
    ctx.extra["segmentations_evaluated"] = total


def check(ctx):
    K = {}
    wr = []          # becomes non-empty once the wrapper's anchors were read
    with ctx.section("protocol constants"):
        K.update(_consts(ctx))
    with ctx.section("wrapper anchors"):
        # ---- sec: wrapper anchors
        ctx.need(bool(K), "V1Parser / V2Parser constants")
        wfacts = {"V2Parser.PREFIX": K["V2Parser.PREFIX"], "V1Parser.PROXYSTR": K["V1Parser.PROXYSTR"]}
        # the first segment meets the object as __init__ left it
        init = _F(ctx, W, "HAProxyProtocolWrapper.__init__")
        for st in walk_local(init):
            tgt = st.targets[0] if isinstance(st, ast.Assign) and len(st.targets) == 1 else (st.target if isinstance(st, ast.AnnAssign) and st.value is not None else None)
            if tgt is not None and isinstance(tgt, ast.Attribute) and src(tgt.value) == "self":
                try:
                    v = peval(st.value, {})
                except NotConst:
                    continue
                if isinstance(v, (int, bytes, str, bool, type(None))):
                    wfacts[src(tgt)] = v
        ctx.need(wfacts.get("self._proxyInfo", 0) is None and wfacts.get("self._parser", 0) is None, "__init__ sets _proxyInfo = None and _parser = None")

        # ================= (a) sniffing, evaluated on concrete first segments =====================================================
        f = _F(ctx, W, "HAProxyProtocolWrapper.dataReceived")
        g = ctx.cfg(f)
        q = QW + "dataReceived"
        dparam = f.args.args[1].arg
        forwards = calls_with(g, "self.wrappedProtocol.dataReceived")
        fw = [n for n, _ in forwards]
        feeds = [(n, c) for n, c in calls_with(g, ".feed")]
        ctx.need(feeds, "parser.feed(data) in HAProxyProtocolWrapper.dataReceived")
        fd = [n for n, _ in feeds]
        handlers = {h for n in fd for h in succ_of(g, n, "exc") if g.node(h).kind == "handler"}
        closes = call_nodes(g, "self.loseConnection", "self.transport.loseConnection", "self.transport.abortConnection")
        reject = [n for n in closes if not any(g.dominates(h, n) for h in handlers)]
        ctx.check(bool(reject), "sniff/garbage-rejected", q + " | <site>", "a stream that does not start with a PROXY header is never refused")
        mk = {"V1": [x.id for x in g.nodes if x.kind == "stmt" and g.reachable(x.id) and isinstance(x.ast, ast.Assign) and call_name(x.ast.value) == "V1Parser"],
              "V2": [x.id for x in g.nodes if x.kind == "stmt" and g.reachable(x.id) and isinstance(x.ast, ast.Assign) and call_name(x.ast.value) == "V2Parser"]}
        ctx.need(mk["V1"] and mk["V2"], "parser construction sites V1Parser() / V2Parser()")
        wr.append(True)

    with ctx.section("sniffing"):
        ctx.need(bool(wr), "anchors of HAProxyProtocolWrapper.dataReceived")
        # ---- sec: sniffing
        for ver, samples in (("v1", V1_SAMPLES), ("v2", V2_SAMPLES)):
            bad_k = set()
            witness = ""
            nprefix = 0
            for name, h in samples.items():
                for k in range(1, len(h)):
                    nprefix += 1
                    facts = dict(wfacts, **{dparam: h[:k]})
                    R = reach_under(g, facts, avoid=fd)
                    if R & set(reject):
                        bad_k.add(k)
                        if not witness:
                            witness = f"first segment {h[:k]!r}: " + g.describe(path_under(g, facts, reject, avoid=fd))
            ctx.extra.setdefault("prefixes_evaluated", 0)
            ctx.extra["prefixes_evaluated"] += nprefix
            c = q + f" | <{ver} header cut after {_ranges(bad_k)} bytes>" if bad_k else q + f" | <{ver} header cut anywhere>"
            ctx.check(not bad_k, "sniff/valid-prefix-rejected", c,
                      f"a valid PROXY {ver} header whose first segment ends after {_ranges(bad_k)} bytes makes the wrapper close the connection: the decision "
                      "'not a PROXY header' is taken from the length of the current segment instead of waiting for the discriminating prefix",
                      witness=witness)
            # whole header (with payload) selects the right parser and is not rejected
            for name, h in samples.items():
                facts = dict(wfacts, **{dparam: h + b"payload"})
                want, other = (mk["V1"], mk["V2"]) if ver == "v1" else (mk["V2"], mk["V1"])
                w = must_pass_under(g, facts, want, to=fd + [g.exit])
                R = reach_under(g, facts, avoid=fd)
                ctx.check(w is None and not (R & set(other)) and not (R & set(reject)), "sniff/version-dispatch", q + f" | <whole {ver} header {name}>",
                          f"a complete {ver} header in the first segment does not select the {ver} parser", witness=g.describe(w))
        for junk in GARBAGE:
            facts = dict(wfacts, **{dparam: junk})
            # refused at once, or handed to a parser (whose parse() refuses it: InvalidProxyHeader -> handler rules below); never forwarded unparsed
            w = must_pass_under(g, facts, reject + fd)
            R = reach_under(g, facts, avoid=fd)
            ctx.check(w is None and not (R & set(fw)), "sniff/garbage-rejected", q + f" | <first segment {junk[:14]!r}...>",
                      "a first segment that cannot begin a PROXY header is neither refused nor given to a parser, or reaches the application unparsed",
                      witness=g.describe(w))

    with ctx.section("wrapper ordering"):
        ctx.need(bool(wr), "anchors of HAProxyProtocolWrapper.dataReceived")
        # ================= (b) ordering in the wrapper ================================================================================
        for n, call in feeds:
            c = ctx.construct(q, call)
            ctx.check(len(call.args) == 1 and src(call.args[0]) == dparam, "wrapper/feeds-segment", c, "the parser is not fed exactly the received segment")
            st = g.node(n).ast
            tg = st.targets[0] if isinstance(st, ast.Assign) else None
            ok = isinstance(tg, ast.Tuple) and len(tg.elts) == 2 and src(tg.elts[0]) == "self._proxyInfo" and isinstance(tg.elts[1], ast.Name)
            ctx.check(ok, "wrapper/feed-result-stored", c, "the (info, remaining) result of feed() is not stored as self._proxyInfo / remaining")
            rem = tg.elts[1].id if ok else None
            hs = [h for h in succ_of(g, n, "exc") if g.node(h).kind == "handler"]
            good_h = [h for h in hs if set(handler_names(g.node(h).ast)) & {"InvalidProxyHeader", "Exception", "BaseException"}]
            ctx.check(bool(good_h), "wrapper/invalid-header-closes", c + " | handler",
                      "InvalidProxyHeader (and its subclasses) raised by feed() is not caught around the call: an invalid header is not turned into a clean close")
            for h in good_h:
                w = g.must_pass([h], closes)
                ctx.check(w is None, "wrapper/invalid-header-closes", ctx.construct(q, f"except {', '.join(handler_names(g.node(h).ast))}:"),
                          "an invalid header does not close the connection", witness=g.describe(w))
                R = g.reach([h], edge_ok=lambda a, b, l: l != "exc")
                ctx.check(not (set(R) & set(fw)), "wrapper/invalid-header-forwards-nothing", ctx.construct(q, f"except {', '.join(handler_names(g.node(h).ast))}:") + " | nothing forwarded",
                          "bytes are handed to the application after the header was found invalid")
            for m, fc in forwards:
                a = src(fc.args[0]) if fc.args else ""
                cf = ctx.construct(q, fc)
                if implied(g, m, [{"self._proxyInfo": NONNULL}], [{"self._proxyInfo": None}]):
                    ctx.check(a == dparam, "wrapper/pass-through", cf, "after the header, the application is not given exactly the received segment")
                else:
                    ok2 = a == rem and g.must_precede([n], [m], exc=True) is None and g.path([n], [m], edge_ok=lambda a_, b_, l: l != "exc") is not None
                    ctx.check(ok2, "wrapper/only-remaining-forwarded", cf,
                              "bytes reach the application that are neither post-header pass-through nor the 'remaining' part returned by feed(): "
                              "header bytes leak to the application (or data is forwarded before the header was parsed)")
                    ctx.check(implied(g, m, [{a: b"x"}], [{a: b""}]) or implied(g, m, [{a: b"x"}], [{a: None}]), "wrapper/remaining-nonempty", cf,
                              "the application is called with nothing / None when the header is still incomplete")
        ctx.floor("wrapper/forward-sites", len(forwards), 2)
        facts = {"self._proxyInfo": NONNULL}
        w = must_pass_under(g, facts, [m for m, fc in forwards if fc.args and src(fc.args[0]) == dparam])
        R = reach_under(g, facts)
        ctx.check(w is None and not (R & set(fd)) and not (R & set(reject)), "wrapper/pass-through", q + " | <header already parsed>",
                  "once the header is parsed, later segments are not passed straight through (they are parsed / sniffed again)", witness=g.describe(w))
        facts = {"self._proxyInfo": None, "self._parser": NONNULL}
        w = must_pass_under(g, facts, fd)
        R = reach_under(g, facts, avoid=fd)
        ctx.check(w is None and not (R & set(reject)) and not (R & set(mk["V1"] + mk["V2"])), "wrapper/parser-kept-across-segments", q + " | <parser chosen, header incomplete>",
                  "the next segment of an incomplete header is sniffed again instead of being fed to the parser chosen for the first segment",
                  witness=g.describe(w))
        for ver in ("V1", "V2"):
            for n in mk[ver]:
                st = g.node(n).ast
                tgs = [src(t) for t in st.targets]
                later = self_assigns(g, "_parser")
                made = {t: NONNULL for t in tgs}      # the freshly built parser object, under whatever local name
                ok = "self._parser" in tgs or (bool(later) and must_pass_under(g, made, later, srcs=succ_of(g, n, None), to=fd + [g.exit]) is None)
                ctx.check(ok, "wrapper/parser-kept-across-segments", ctx.construct(q, st),
                          "the parser chosen for the first segment is not stored in self._parser: the rest of a segmented header is sniffed as if it were a new stream")
        acc = class_accesses(ctx.mod(W), ctx.cls(W, "HAProxyProtocolWrapper"), {"_proxyInfo"}, {"self"})
        for a in acc:
            inl_ = _views(ctx).inliner(W)
            fn_ = a.func.split(".")[-1]
            ok = inl_.permitted(fn_, {"__init__"}) or (inl_.permitted(fn_, {"dataReceived"}) and any(src(a.node) == src(g.node(n).ast) for n in fd))
            ctx.check(ok, "wrapper/proxyinfo-who-may-write", ctx.construct(Q + "_wrapper." + a.func, a.node), "_proxyInfo is set from something other than the parser's result")
    with ctx.section("getPeer/getHost"):
        # ---- sec: getPeer getHost
        for meth, attr in (("getPeer", "source"), ("getHost", "destination")):
            fm = _F(ctx, W, f"HAProxyProtocolWrapper.{meth}")
            gm = ctx.cfg(fm)
            rets = [x for x in gm.nodes if x.kind == "stmt" and gm.reachable(x.id) and isinstance(x.ast, ast.Return) and x.ast.value is not None]
            pr = [x for x in rets if src(x.ast.value).startswith("self._proxyInfo.")]
            ok = bool(pr) and all(src(x.ast.value) == f"self._proxyInfo.{attr}" for x in pr) and \
                all(implied(gm, x.id, [{f"self._proxyInfo.{attr}": NONNULL, "self._proxyInfo": NONNULL}], [{f"self._proxyInfo.{attr}": None, "self._proxyInfo": NONNULL}]) for x in pr)
            ctx.check(ok, "wrapper/address-from-header", QW + meth, f"{meth}() does not answer with the header's {attr} address when the header carried one")
            tr = [x for x in rets if src(x.ast.value) == f"self.transport.{meth}()"]
            ctx.check(bool(tr), "wrapper/address-fallback", QW + meth, f"{meth}() has no fallback to the transport's own address (UNKNOWN / LOCAL headers)")

    with ctx.section("V1Parser.feed"):
        ctx.need(bool(K), "V1Parser / V2Parser constants")
        # ================= (a') the parsers' feed(), evaluated on concrete segmentations =================================================
        f1 = _F(ctx, V1, "V1Parser.feed")
        g1 = ctx.cfg(f1)
        q1 = Q + "_v1parser.V1Parser.feed"
        d1 = f1.args.args[1].arg
        parse1 = call_nodes(g1, "self.parse", "cls.parse", "V1Parser.parse")
        rz1 = _raises(g1, "InvalidProxyHeader")
        none_ret = [x.id for x in g1.nodes if x.kind == "stmt" and g1.reachable(x.id) and isinstance(x.ast, ast.Return) and x.ast.value is not None
                    and src(x.ast.value) in ("(None, None)",)]
        base1 = {"self.NEWLINE": K["V1Parser.NEWLINE"]}
        nseg = 0
        for name, h in V1_SAMPLES.items():
            for cut in sorted({1, 5, 8, len(h) // 2, len(h) - 2, len(h) - 1}):
                for k in (cut,):
                    nseg += 1
                    # first segment h[:k] : incomplete
                    facts = dict(base1, **{"self.buffer": b"", d1: h[:k]})
                    R = reach_under(g1, facts)
                    w = must_pass_under(g1, facts, none_ret)
                    ctx.check(w is None and not (R & set(rz1)) and not (R & set(parse1)), "v1feed/incomplete-waits", q1 + f" | <{name} header, first {k} of {len(h)} bytes>",
                              "an incomplete v1 header is rejected or parsed instead of waiting for the rest", witness=g1.describe(w))
                    # second segment completes it
                    facts = dict(base1, **{"self.buffer": h[:k], d1: h[k:] + b"GET /\r\n\r\n"})
                    w = must_pass_under(g1, facts, parse1)
                    R = reach_under(g1, facts, avoid=parse1)
                    ctx.check(w is None and not (R & set(none_ret)), "v1feed/completed-header-parsed", q1 + f" | <{name} header completed by the 2nd segment after {k} bytes>",
                              "a header completed by a later segment is not parsed", witness=g1.describe(w))
        ctx.extra["feed_segmentations_evaluated"] = nseg
        facts = dict(base1, **{"self.buffer": b"", d1: b"PROXY TCP6 " + b"f" * 95})   # 106 bytes, CR LF still to come: longest legal line is 107
        R = reach_under(g1, facts)
        ctx.check(not (R & set(rz1)), "v1feed/length-limit-admits-longest-header", q1 + " | <106 bytes buffered, no CRLF yet>",
                  "a v1 header of the maximum legal length (107 bytes with CRLF) is refused while its CRLF is still in flight")
        facts = dict(base1, **{"self.buffer": b"", d1: b"P" * 300})
        R = reach_under(g1, facts)
        ctx.check(bool(R & set(rz1)) and g1.exit not in R, "v1feed/length-limit", q1 + " | <300 bytes, no CRLF>", "an endless first line is buffered without limit")
        sp = [x for x in walk_local(f1) if isinstance(x, ast.Call) and isinstance(x.func, ast.Attribute) and x.func.attr == "split" and src(x.func.value) == "self.buffer"]
        ok = len(sp) == 1 and len(sp[0].args) == 2 and src(sp[0].args[0]) == "self.NEWLINE" and const_value_is(sp[0].args[1], lambda v: v == 1)
        ctx.check(ok, "v1feed/split-once", q1 + " | <split>",
                  "the buffer is not split exactly once at the first CRLF: a payload containing CRLF is truncated / mistaken for the header")
        # (info, remaining): remaining is the tail of the split, header the head
        rets = [x for x in walk_local(f1) if isinstance(x, ast.Return) and isinstance(x.value, ast.Tuple) and len(x.value.elts) == 2 and src(x.value) != "(None, None)"]
        ok = False
        if len(rets) == 1 and sp:
            info, rem = rets[0].value.elts
            idef = local_def(f1, info)
            hname = src(idef.args[0]) if isinstance(idef, ast.Call) and call_name(idef) in ("self.parse", "cls.parse", "V1Parser.parse") and idef.args else None
            lines = None
            for st in walk_local(f1):
                if isinstance(st, ast.Assign) and st.value is sp[0] and isinstance(st.targets[0], ast.Name):
                    lines = st.targets[0].id
            pops = [n for n in g1.nodes if n.kind == "stmt" and g1.reachable(n.id) and isinstance(n.ast, ast.Assign) and isinstance(n.ast.value, ast.Call)
                    and lines and src(n.ast.value.func) == f"{lines}.pop" and isinstance(n.ast.targets[0], ast.Name)]
            if hname and lines and len(pops) == 2 and all(not p.ast.value.args or const_value_is(p.ast.value.args[0], lambda v: v == -1) for p in pops):
                first, second = (pops[0], pops[1]) if g1.path([pops[0].id], [pops[1].id], strict=True) else (pops[1], pops[0])
                ok = first.ast.targets[0].id == src(rem) and second.ast.targets[0].id == hname
            elif hname and lines:
                for st in walk_local(f1):
                    if isinstance(st, ast.Assign) and isinstance(st.targets[0], ast.Tuple) and src(st.value) == lines:
                        ok = [src(e) for e in st.targets[0].elts] == [hname, src(rem)]
        ctx.check(ok, "v1feed/header-and-payload-order", q1 + " | <return>", "feed() does not return (parse(text before the first CRLF), bytes after it)")
        rs1 = self_assigns(g1, "buffer", lambda v: const_value_is(v, lambda x: x == b""))
        ctx.check(all(g1.must_precede(rs1, [p]) is None or True for p in parse1) and not (reach_under(g1, dict(base1, **{"self.buffer": b"", d1: b"PROXY"})) & set(rs1)),
                  "v1feed/buffer-kept-while-incomplete", q1 + " | <incomplete>", "the partial header is discarded while waiting for the rest")

    with ctx.section("V2Parser.feed"):
        ctx.need(bool(K), "V1Parser / V2Parser constants")
        ctx.need(bool(wr), "anchors of HAProxyProtocolWrapper.dataReceived")
        # ---- sec: V2Parser.feed
        f2 = _F(ctx, V2, "V2Parser.feed")
        g2 = ctx.cfg(f2)
        q2 = Q + "_v2parser.V2Parser.feed"
        d2 = f2.args.args[1].arg
        parse2 = call_nodes(g2, "self.parse", "cls.parse", "V2Parser.parse")
        rz2 = _raises(g2, "InvalidProxyHeader")
        none2 = [x.id for x in g2.nodes if x.kind == "stmt" and g2.reachable(x.id) and isinstance(x.ast, ast.Return) and x.ast.value is not None and src(x.ast.value) == "(None, None)"]
        rs2 = self_assigns(g2, "buffer", lambda v: const_value_is(v, lambda x: x == b""))
        # smallest first segment for which the wrapper hands a v2 header to V2Parser
        kmin = None
        h0 = V2_SAMPLES["INET/STREAM"]
        for k in range(1, len(h0) + 1):
            if reach_under(g, dict(wfacts, **{dparam: h0[:k]}), avoid=fd) & set(mk["V2"]):
                kmin = k
                break
        ctx.need(kmin, "a first-segment length for which the wrapper selects V2Parser")
        for name, h in V2_SAMPLES.items():
            for k in sorted(set(range(kmin, min(len(h), kmin + 4))) | {len(h) - 1}):
                if k >= len(h) or k < kmin:
                    continue
                facts = {"self.buffer": b"", d2: h[:k]}
                R = reach_under(g2, facts)
                w = must_pass_under(g2, facts, none2)
                ctx.check(w is None and not (R & set(rz2)) and not (R & set(parse2)) and not (R & set(rs2)), "v2feed/incomplete-waits",
                          q2 + f" | <{name} header, first {k} of {len(h)} bytes (wrapper selects V2Parser from {kmin} bytes)>",
                          "an incomplete v2 header that the wrapper already routed to V2Parser is rejected, parsed or dropped instead of waiting",
                          witness=g2.describe(w))
                facts = {"self.buffer": h[:k], d2: h[k:]}
                w = must_pass_under(g2, facts, parse2)
                ctx.check(w is None, "v2feed/completed-header-parsed", q2 + f" | <{name} header completed exactly (no payload) after a cut at {k}>",
                          "a v2 header whose last byte has just arrived is not parsed until more data comes", witness=g2.describe(w))
        hs = [st for st in walk_local(f2) if isinstance(st, ast.Assign) and isinstance(st.targets[0], ast.Tuple) and isinstance(st.value, ast.Tuple) and len(st.value.elts) == 2]
        ok = False
        for st in hs:
            a, b = (slice_parts(e) for e in st.value.elts)
            if a and b and src(a[0]) == src(b[0]) == "self.buffer" and a[1] is None and a[2] is not None and b[2] is None and b[1] is not None and src(a[2]) == src(b[1]):
                sz = local_def(f2, a[2])
                try:
                    val = peval(sz, {"self.buffer": h0 + b"xyz"})
                except NotConst:
                    val = None
                names = [src(e) for e in st.targets[0].elts]
                pr = [c for c in walk_local(f2) if isinstance(c, ast.Call) and call_name(c) in ("self.parse", "cls.parse", "V2Parser.parse")]
                ok = val == len(h0) and bool(pr) and src(pr[0].args[0]) == names[0] and any(isinstance(r, ast.Return) and isinstance(r.value, ast.Tuple) and src(r.value.elts[1]) == names[1] for r in walk_local(f2))
        ctx.check(ok, "v2feed/header-and-payload-split", q2 + " | <split>",
                  "feed() does not cut the buffer at 16 + the length field into (header given to parse, payload returned)")

    with ctx.section("ADDRESSFORMATS"):
        # ================= (c) tables and constants ========================================================================================
        ca2 = class_assigns(ctx.cls(V2, "V2Parser"))
        try:
            fmts = peval(ca2["ADDRESSFORMATS"], {}) if False else {peval(k, {}): peval(v, {}) for k, v in zip(ca2["ADDRESSFORMATS"].keys, ca2["ADDRESSFORMATS"].values)}
        except (KeyError, NotConst, AttributeError):
            fmts = None
        ctx.need(isinstance(fmts, dict), "V2Parser.ADDRESSFORMATS literal")
        fam = {}
        for cname in ("NetFamily", "NetProtocol"):
            cdef = ctx.cls(V2, cname)
            vals = {}
            for k, v in class_assigns(cdef).items():
                if isinstance(v, ast.Call) and call_name(v) == "ValueConstant" and v.args:
                    vals[k] = peval(v.args[0], {})
            fam[cname] = vals
        spec_size = {0x10: 12, 0x20: 36, 0x30: 216}
        for fn, fv in fam["NetFamily"].items():
            for pn, pv in fam["NetProtocol"].items():
                if fn == "UNSPEC" or pn == "UNSPEC":
                    continue
                key = fv | pv
                c = Q + f"_v2parser.V2Parser.ADDRESSFORMATS[{fn}|{pn} = {key:#04x}]"
                okk = key in fmts
                if okk:
                    try:
                        okk = struct.calcsize(fmts[key]) == spec_size.get(fv) and fmts[key][:1] in ("!", ">")
                    except struct.error:
                        okk = False
                ctx.check(okk, "v2table/address-formats", c,
                          "no address format (or one of the wrong size / byte order) for a family|protocol byte the parser accepts: a valid header ends in KeyError "
                          "or mis-sliced addresses")
        ctx.floor("v2table/address-formats", len(fmts), 3)
    with ctx.section("V2Parser.parse address block"):
        # ---- sec: v2 slice
        fp2 = _F(ctx, V2, "V2Parser.parse")
        sl = [x for x in walk_local(fp2) if isinstance(x, ast.Assign) and slice_parts(x.value) and "calcsize" in src(x.value)]
        ok = False
        for st in sl:
            v, lo, hi = slice_parts(st.value)
            fmtname = None
            for c in ast.walk(hi):
                if isinstance(c, ast.Call) and call_name(c) in ("struct.calcsize", "calcsize") and c.args:
                    fmtname = src(c.args[0])
            ups = [c for c in walk_local(fp2) if isinstance(c, ast.Call) and call_name(c) in ("struct.unpack", "unpack") and len(c.args) == 2]
            try:
                width_ok = peval(hi, {f"struct.calcsize({fmtname})": 12, f"calcsize({fmtname})": 12}) - peval(lo, {}) == 12 and peval(lo, {}) == 16
            except (NotConst, TypeError):
                width_ok = False
            ok = width_ok and bool(ups) and all(src(c.args[0]) == fmtname and src(c.args[1]) == src(st.targets[0]) for c in ups) and \
                src(local_def(fp2, ast.Name(id=fmtname))) == "cls.ADDRESSFORMATS[familyProto]"
        ctx.check(ok, "v2table/slice-width", Q + "_v2parser.V2Parser.parse | <address block>",
                  "the address block is not line[16 : 16 + calcsize(format)] unpacked with that same format chosen by the family|protocol byte")
    with ctx.section("protocol constants agree"):
        ctx.need(bool(K), "V1Parser / V2Parser constants")
        # version constants agree between wrapper sniff and parser
        try:
            versions = peval(ca2["VERSIONS"], {})
            commands = {peval(k, {}) for k in ca2["COMMANDS"].keys}
            high = peval(ctx.mod(V2).module_assign("_HIGH"), {})
        except (KeyError, NotConst, AttributeError, TypeError):
            versions = commands = high = None
        ctx.check(versions == [0x20] and commands == {0, 1} and high == 0xF0, "v2table/version-command", Q + "_v2parser.V2Parser.VERSIONS/COMMANDS",
                  "version nibble 0x2 with commands LOCAL(0)/PROXY(1) is not what the parser accepts")
        ctx.check(K["V2Parser.PREFIX"] == _SIG and K["V1Parser.PROXYSTR"] == b"PROXY" and K["V1Parser.NEWLINE"] == b"\r\n", "tables/signatures", Q + "V2Parser.PREFIX / V1Parser.PROXYSTR",
                  "the protocol signatures differ from the PROXY protocol specification")
        ca1 = class_assigns(ctx.cls(V1, "V1Parser"))
        try:
            allowed = peval(ca1["ALLOWED_NET_PROTOS"], {"TCP4_PROTO": K["V1Parser.TCP4_PROTO"], "TCP6_PROTO": K["V1Parser.TCP6_PROTO"], "UNKNOWN_PROTO": K["V1Parser.UNKNOWN_PROTO"]})
        except (KeyError, NotConst):
            allowed = ()
        ctx.check(set(allowed) == {b"TCP4", b"TCP6", b"UNKNOWN"}, "v1table/allowed-protocols", Q + "_v1parser.V1Parser.ALLOWED_NET_PROTOS",
                  f"the allowed v1 protocols are {sorted(allowed)}; TCP4, TCP6 and UNKNOWN must all be accepted (and nothing else)")
    with ctx.section("parsed fields"):
        # source / destination slots
        fp1 = _F(ctx, V1, "V1Parser.parse")
        fp2 = _F(ctx, V2, "V2Parser.parse")
        for fp, qq, srcnames, dstnames in ((fp1, Q + "_v1parser.V1Parser.parse", ("sourceAddr", "sourcePort"), ("destAddr", "destPort")),
                                          (fp2, Q + "_v2parser.V2Parser.parse", ("source", "sPort"), ("dest", "dPort"))):
            n_ = 0
            for r in (x for x in walk_local(fp) if isinstance(x, ast.Return) and isinstance(x.value, ast.Call) and src(x.value.func).endswith("ProxyInfo") and len(x.value.args) == 3):
                s_, d_ = r.value.args[1], r.value.args[2]
                if const_value_is(s_, lambda v: v is None) and const_value_is(d_, lambda v: v is None):
                    continue
                n_ += 1
                sn = {x.id for x in ast.walk(s_) if isinstance(x, ast.Name)}
                dn = {x.id for x in ast.walk(d_) if isinstance(x, ast.Name)}
                ok = not (sn & set(dstnames)) and not (dn & set(srcnames)) and bool(sn & set(srcnames)) and bool(dn & set(dstnames))
                ctx.check(ok, "parse/source-dest-slots", ctx.construct(qq, r), "a destination field is used for the source address (or the reverse)")
            ctx.floor("parse/source-dest-slots", n_, 2)
        # v1 field order: src addr, dst addr, src port, dst port
        order = []
        for st in walk_local(fp1):
            if isinstance(st, ast.Assign) and isinstance(st.targets[0], ast.Tuple) and isinstance(st.value, ast.Call) and src(st.value.func) == "line.split":
                order.append(src(st.targets[0].elts[0]))
            elif isinstance(st, ast.Assign) and isinstance(st.targets[0], ast.Name) and "line.split" in src(st.value):
                order.append(st.targets[0].id)
        ctx.check(order == ["proxyStr", "networkProtocol", "sourceAddr", "destAddr", "sourcePort", "destPort"], "parse/v1-field-order", Q + "_v1parser.V1Parser.parse | <fields>",
                  f"the v1 fields are not taken in the order 'PROXY proto src dst sport dport' (found {order})")
        up = [st for st in walk_local(fp2) if isinstance(st, ast.Assign) and isinstance(st.targets[0], ast.Tuple) and len(st.targets[0].elts) == 4]
        ctx.check(any([src(e) for e in st.targets[0].elts] == ["source", "dest", "sPort", "dPort"] for st in up), "parse/v2-field-order", Q + "_v2parser.V2Parser.parse | <fields>",
                  "the unpacked v2 address block is not read as (source, dest, sPort, dPort)")
    with ctx.section("informational"):
        fp1 = _F(ctx, V1, "V1Parser.parse")
        fp2 = _F(ctx, V2, "V2Parser.parse")
        # informational: conversions outside convertError
        loose = []
        for fp, nm in ((fp1, "V1Parser.parse"), (fp2, "V2Parser.parse")):
            for c in walk_local(fp):
                if isinstance(c, ast.Call) and (call_name(c) == "int" or (isinstance(c.func, ast.Attribute) and c.func.attr == "decode")):
                    p = getattr(c, "_parent", None)
                    inside = False
                    while p is not None and p is not fp:
                        if isinstance(p, ast.With) and any("convertError" in src(i.context_expr) for i in p.items):
                            inside = True
                        p = getattr(p, "_parent", None)
                    if not inside:
                        loose.append(f"{nm}: {src(c)}")
        if loose:
            ctx.note("informational (not armed): conversions outside convertError raise ValueError/UnicodeDecodeError instead of InvalidProxyHeader; the exception still "
                     "closes the connection through the transport: " + "; ".join(sorted(set(loose))[:8]))

    _segmentation(ctx)


_SNIFF_OLD = ("            if (\n                len(data) >= 16\n                and data[:12] == V2Parser.PREFIX\n                and ord(data[12:13]) & 0b11110000 == 0x20\n            ):\n"
              "                self._parser = parser = V2Parser()\n            elif len(data) >= 8 and data[:5] == V1Parser.PROXYSTR:\n                self._parser = parser = V1Parser()\n"
              "            else:\n                self.loseConnection()\n                return None\n")
_SNIFF_FIXED = ("            data = self._pending + data\n            self._pending = b\"\"\n"
                "            if (\n                len(data) >= 16\n                and data[:12] == V2Parser.PREFIX\n                and ord(data[12:13]) & 0b11110000 == 0x20\n            ):\n"
                "                self._parser = parser = V2Parser()\n            elif len(data) >= 8 and data[:5] == V1Parser.PROXYSTR:\n                self._parser = parser = V1Parser()\n"
                "            elif len(data) < 16 and (V2Parser.PREFIX[: len(data)] == data[:12] or V1Parser.PROXYSTR[: len(data)] == data[:5]):\n"
                "                self._pending = data\n                return None\n"
                "            else:\n                self.loseConnection()\n                return None\n")
MUTANTS = [
    Mutant("v1-sniff-needs-longer-segment", W, "            elif len(data) >= 8 and data[:5] == V1Parser.PROXYSTR:", "            elif len(data) >= 12 and data[:5] == V1Parser.PROXYSTR:",
           expect_rule="sniff/valid-prefix-rejected"),
    Mutant("forward-before-header-parsed", W, "            self._proxyInfo, remaining = parser.feed(data)\n            if remaining:\n                self.wrappedProtocol.dataReceived(remaining)\n",
           "            self.wrappedProtocol.dataReceived(data)\n            self._proxyInfo, remaining = parser.feed(data)\n", expect_rule="wrapper/only-remaining-forwarded"),
    Mutant("forward-whole-segment-after-header", W, "                self.wrappedProtocol.dataReceived(remaining)\n", "                self.wrappedProtocol.dataReceived(data)\n",
           expect_rule="wrapper/only-remaining-forwarded"),
    Mutant("invalid-header-swallowed", W, "        except InvalidProxyHeader:\n            self.loseConnection()\n", "        except InvalidProxyHeader:\n            pass\n",
           expect_rule="wrapper/invalid-header-closes"),
    Mutant("handler-narrowed-to-subclass", W, "        except InvalidProxyHeader:\n            self.loseConnection()\n", "        except MissingAddressData:\n            self.loseConnection()\n",
           more=[(W, "from ._exceptions import InvalidProxyHeader\n", "from ._exceptions import InvalidProxyHeader, MissingAddressData\n")], expect_rule="wrapper/invalid-header-closes"),
    Mutant("parser-not-kept", W, "                self._parser = parser = V1Parser()", "                parser = V1Parser()", expect_rule="wrapper/parser-kept-across-segments"),
    Mutant("pass-through-falls-into-parser", W, "        if self._proxyInfo is not None:\n            return self.wrappedProtocol.dataReceived(data)\n",
           "        if self._proxyInfo is not None:\n            self.wrappedProtocol.dataReceived(data)\n", expect_rule="wrapper/pass-through"),
    Mutant("addressformats-row-dropped", V2, "        34: \"!16s16s2H\",\n", "", expect_rule="v2table/address-formats"),
    Mutant("addressformats-wrong-width", V2, "        18: \"!4s4s2H\",\n", "        18: \"!4s4sH\",\n", expect_rule="v2table/address-formats"),
    Mutant("v2-complete-header-waits", V2, "        if len(self.buffer) < size:\n            return (None, None)", "        if len(self.buffer) <= size:\n            return (None, None)",
           expect_rule="v2feed/completed-header-parsed"),
    Mutant("v2-sniff-hands-over-too-early", W, "                len(data) >= 16\n                and data[:12] == V2Parser.PREFIX", "                len(data) >= 13\n                and data[:12] == V2Parser.PREFIX",
           expect_rule="v2feed/incomplete-waits"),
    Mutant("v1-payload-crlf-splits-header", V1, "        lines = (self.buffer).split(self.NEWLINE, 1)", "        lines = (self.buffer).split(self.NEWLINE)", expect_rule="v1feed/split-once"),
    Mutant("v1-length-limit-too-low", V1, "        if len(self.buffer) > 107 and self.NEWLINE not in self.buffer:", "        if len(self.buffer) > 100 and self.NEWLINE not in self.buffer:",
           expect_rule="v1feed/length-limit-admits-longest-header"),
    Mutant("getpeer-returns-destination", W, "        if self._proxyInfo and self._proxyInfo.source:\n            return self._proxyInfo.source\n",
           "        if self._proxyInfo and self._proxyInfo.source:\n            return self._proxyInfo.destination\n", expect_rule="wrapper/address-from-header"),
    Mutant("v1-ports-crossed", V1, "                address.IPv4Address(\"TCP\", sourceAddr.decode(), int(sourcePort)),", "                address.IPv4Address(\"TCP\", sourceAddr.decode(), int(destPort)),",
           expect_rule="parse/source-dest-slots"),
    Mutant("v1-terminator-searched-in-new-segment-only", V1, "        if len(self.buffer) > 107 and self.NEWLINE not in self.buffer:\n            raise InvalidProxyHeader()\n        lines = (self.buffer).split(self.NEWLINE, 1)\n        if not len(lines) > 1:\n            return (None, None)\n",
           "        if len(self.buffer) > 107 and self.NEWLINE not in self.buffer:\n            raise InvalidProxyHeader()\n        if data.find(self.NEWLINE) < 0:\n            return (None, None)\n"
           "        lines = (self.buffer).split(self.NEWLINE, 1)\n", expect_rule="segmentation/invariant"),
    Mutant("v1-buffer-restarts-with-each-segment", V1, "        self.buffer += data\n        if len(self.buffer) > 107", "        self.buffer = data if self.NEWLINE in data else self.buffer + data\n        if len(self.buffer) > 107",
           expect_rule="segmentation/invariant"),
    Mutant("v2-length-read-from-new-segment", V2, "        size = struct.unpack(\"!H\", self.buffer[14:16])[0] + 16", "        size = struct.unpack(\"!H\", data[14:16])[0] + 16",
           expect_rule="segmentation/invariant"),
    Mutant("v2-parser-buffer-dropped-while-header-incomplete", V2, "        if len(self.buffer) < size:\n            return (None, None)\n",
           "        if len(self.buffer) < size:\n            self.buffer = self.buffer[:16]\n            return (None, None)\n", expect_rule="segmentation/invariant"),
    Mutant("v1-unknown-not-allowed", V1, "    ALLOWED_NET_PROTOS = (\n        TCP4_PROTO,\n        TCP6_PROTO,\n        UNKNOWN_PROTO,\n    )", "    ALLOWED_NET_PROTOS = (\n        TCP4_PROTO,\n        TCP6_PROTO,\n    )",
           expect_rule="v1table/allowed-protocols"),
]
SILENT = [
    Silent("F47-repaired-by-buffering", W, _SNIFF_OLD, _SNIFF_FIXED,
           more=[(W, "        self._parser: Union[V2Parser, V1Parser, None] = None\n", "        self._parser: Union[V2Parser, V1Parser, None] = None\n        self._pending = b\"\"\n")]),
    Silent("sniff-tests-respelled", W, "            elif len(data) >= 8 and data[:5] == V1Parser.PROXYSTR:", "            elif not len(data) < 8 and data.startswith(V1Parser.PROXYSTR):"),
    Silent("feed-result-via-locals", W, "            if remaining:\n                self.wrappedProtocol.dataReceived(remaining)\n",
           "            if remaining is not None and len(remaining) > 0:\n                self.wrappedProtocol.dataReceived(remaining)\n"),
    Silent("v2-incomplete-respelled", V2, "        if len(self.buffer) < size:\n            return (None, None)", "        if size > len(self.buffer):\n            return (None, None)"),
    Silent("v1-terminator-search-limited-to-the-unscanned-tail", V1, "        if len(self.buffer) > 107 and self.NEWLINE not in self.buffer:\n            raise InvalidProxyHeader()\n        lines = (self.buffer).split(self.NEWLINE, 1)\n        if not len(lines) > 1:\n            return (None, None)\n",
           "        if len(self.buffer) > 107 and self.NEWLINE not in self.buffer:\n            raise InvalidProxyHeader()\n"
           "        if self.NEWLINE not in self.buffer[-(len(data) + len(self.NEWLINE) - 1):]:\n            return (None, None)\n        lines = (self.buffer).split(self.NEWLINE, 1)\n"),
    Silent("sniff-extracted-into-helper", W,
           "        if parser is None:\n            if (\n                len(data) >= 16\n                and data[:12] == V2Parser.PREFIX\n                and ord(data[12:13]) & 0b11110000 == 0x20\n            ):\n"
           "                self._parser = parser = V2Parser()\n            elif len(data) >= 8 and data[:5] == V1Parser.PROXYSTR:\n                self._parser = parser = V1Parser()\n"
           "            else:\n                self.loseConnection()\n                return None\n",
           "        if parser is None:\n            parser = self._pickParser(data)\n            if parser is None:\n                self.loseConnection()\n                return None\n            self._parser = parser\n",
           more=[(W, "    def getPeer(self) -> interfaces.IAddress:",
                  "    def _pickParser(self, data):\n        if len(data) >= 16 and data[:12] == V2Parser.PREFIX and ord(data[12:13]) & 0b11110000 == 0x20:\n            return V2Parser()\n"
                  "        if len(data) >= 8 and data[:5] == V1Parser.PROXYSTR:\n            return V1Parser()\n        return None\n\n    def getPeer(self) -> interfaces.IAddress:")]),
    Silent("handler-broadened", W, "        except InvalidProxyHeader:\n            self.loseConnection()\n", "        except (InvalidProxyHeader, ValueError):\n            self.loseConnection()\n"),
]
