"""C47 - PROXY protocol wrapper: header recognised however it is segmented, only payload bytes reach the application."""
from __future__ import annotations

import ast
import struct

from sa.astx import NotConst, call_name, lincmp, lin_expect, src, walk_local
from sa.effects import class_accesses
from sa.selftest import Mutant, Silent
from sa.source import class_assigns
from sa.props._lib_d import (NONNULL, call_nodes, calls_with, const_value_is, handler_names, implied, local_def, path_under, peval,
                             reach_under, self_assigns, slice_parts, succ_of, test_value)
from sa.props._lib_d import must_pass_under as _must_pass_under
from sa.props._lib_d import written_names
from sa.props._lib_d import Views, resolve_locals
from sa.props._lib_d import MiniVM, VMContext, VMError, VMExc, VMObj, VMRaise, VMStub, _NativeRaise
from sa.source import AnalysisError

PROPERTY = "C47"
W = "protocols/haproxy/_wrapper.py"
V1 = "protocols/haproxy/_v1parser.py"
V2 = "protocols/haproxy/_v2parser.py"
TECHNIQUE = "CFG ordering, exhaustive length evaluation of the sniff, table agreement; interpreted header segmentations second"
EXPLANATION = (
    "Decided by interpreting the sources (wrapper, V1Parser, V2Parser, exception classes; no import of twisted) on concrete inputs and comparing "
    "only observable behaviour - getPeer()/getHost(), bytes given to the application, connection closed - with what the PROXY protocol prescribes: "
    "(a) every proper prefix of the sample valid v1/v2 headers as first segment must not close the connection (it used to: finding F47, fixed in 97ae46d), whole "
    "headers are recognised, first segments that cannot start a header are refused or parsed and never forwarded unparsed; V1Parser.feed / "
    "V2Parser.feed as step functions wait for an incomplete header, hand a just-completed one to parse() and return exactly the bytes after it; "
    "V2Parser.parse never interprets the family byte / address block of a LOCAL header (structural) and, evaluated on the sample headers with constantly.Values replaced by a stand-in built from the class bodies, yields the prescribed addresses and refuses invalid headers; V1Parser.parse on the sample lines yields source = (src, sport), destination = (dst, dport) of the right family and refuses malformed lines "
    "with InvalidProxyHeader (the bare 'PROXY UNKNOWN' line used to be refused: finding F47u, fixed in 7c304b5); getPeer/getHost answer the header's addresses or fall "
    "back to the transport; (d) header + payload delivered at once and in every 2-way / many 3-way segmentations (cut anywhere, also inside the signature) give the "
    "same observable result, with all object state threaded from call to call. Structural (CFG, helpers inlined): bytes reach "
    "the wrapped protocol only as pass-through once the header is known or as the 'remaining' returned by feed(data); InvalidProxyHeader from feed "
    "closes and forwards nothing; a stored parser is not re-sniffed; (c) tables: ADDRESSFORMATS rows / sizes / slice width, version and signature "
    "constants, allowed v1 protocols, V2 source/destination slots. Informational only: .decode()/int() outside convertError. Not decided: equality of "
    "parsed addresses with the header's for all inputs (sample headers only)."
    " METHODS per clause: first-segment refusal = finite-exhaustive over all segment lengths below the largest length threshold (content tests not evaluated) plus the "
    "interpreted prefixes as witness layer; signature slice widths, v2 completeness guard (lincmp normal form), terminator searched in the accumulated buffer, wrapper "
    "ordering, who-may-write and all tables = structural (each abstains with a note when the shape is not recognised); version dispatch, garbage refusal, feed step "
    "functions, V1Parser.parse, getPeer/getHost and segmentation invariance = BOUNDED evidence only (sample headers; a structural decider exists only for the parts named above)."
)
RULE_KINDS = {
    # CFG ordering in the wrapper on the normalised view (pass-through only once the header is known, only feed()'s remainder forwarded, invalid header
    # closes and forwards nothing, stored parser not re-sniffed), who-may-write closure, terminator searched in the accumulated buffer (def-use),
    # lincmp normal form of the v2 completeness guard, table agreement (ADDRESSFORMATS rows / sizes / slice width, signatures and their slice widths,
    # version / command constants, allowed v1 protocols, v2 source/destination slots)
    "*": "structural",
    # every first-segment length below the largest threshold the sniff compares the length with, content tests never evaluated
    "sniff/short-segment-refused": "finite-exhaustive",
    # wrapper / parsers interpreted from source on the sample headers (7 valid headers, 5 non-headers, malformed lines), every proper prefix as first
    # segment, every 2-way and many/all 3-way segmentations with state carried across calls; a verdict about those inputs only
    "sniff/valid-prefix-rejected": "bounded", "sniff/version-dispatch": "bounded", "sniff/garbage-rejected": "bounded",
    "v1feed/incomplete-waits": "bounded", "v1feed/completed-header-parsed": "bounded", "v1feed/length-limit": "bounded",
    "v2feed/incomplete-waits": "bounded", "v2feed/completed-header-parsed": "bounded",
    "parse/v1-evaluated": "bounded", "parse/v1-invalid-lines-refused": "bounded", "parse/v2-evaluated": "bounded", "parse/v2-invalid-headers-refused": "bounded", "wrapper/address-from-header": "bounded", "wrapper/address-fallback": "bounded",
    "segmentation/": "bounded",
}
ASSUMPTIONS = [
    "transports never deliver an empty segment",
    "sample headers (v1 TCP4/TCP6/UNKNOWN, v2 INET/INET6/UNIX/LOCAL, with and without payload) are representative of the grammar for the sniffing decision, which only looks at the first 16 bytes",
]
Q = "twisted.protocols.haproxy."
QW = Q + "_wrapper.HAProxyProtocolWrapper."

# methods the rules are written against; any other private method of these classes is a helper introduced later and is analysed as
# if inlined at its call sites (sa.props._lib_d.Inliner / Views)
KNOWN = {'protocols/haproxy/_v1parser.py': {'V1Parser': ['__init__', 'feed', 'parse']},
 'protocols/haproxy/_v2parser.py': {'V2Parser': ['__init__', '_bytesToIPv4', '_bytesToIPv6', 'feed', 'parse']},
 'protocols/haproxy/_wrapper.py': {'HAProxyProtocolWrapper': ['__init__', 'dataReceived', 'getHost', 'getPeer']}}


def _views(ctx):
    v = ctx.__dict__.get("_views_d")
    if v is None:
        v = ctx.__dict__["_views_d"] = Views(ctx, KNOWN, extended=True)
    return v


def _F(ctx, rel, qual):
    return _views(ctx).f(rel, qual)


def _M(ctx, rel, cls_name):
    return _views(ctx).methods(rel, cls_name)


V1_SAMPLES = {
    "TCP4": b"PROXY TCP4 192.0.2.1 198.51.100.7 56324 443\r\n",
    "TCP6": b"PROXY TCP6 2001:db8::1 2001:db8::2 56324 443\r\n",
    "UNKNOWN": b"PROXY UNKNOWN\r\n",
}
_SIG = b"\r\n\r\n\x00\r\nQUIT\n"
V2_SAMPLES = {
    "INET/STREAM": _SIG + b"\x21\x11" + struct.pack("!H", 12) + bytes([192, 0, 2, 1, 198, 51, 100, 7]) + struct.pack("!HH", 56324, 443),
    "INET6/DGRAM+TLV": _SIG + b"\x21\x22" + struct.pack("!H", 36 + 7) + bytes(range(16)) + bytes(range(16, 32)) + struct.pack("!HH", 1, 2) + b"\x04\x00\x04abcd",
    "UNIX/STREAM": _SIG + b"\x21\x31" + struct.pack("!H", 216) + b"/a".ljust(108, b"\0") + b"/b".ljust(108, b"\0"),
    "LOCAL": _SIG + b"\x20\x00" + struct.pack("!H", 0),
}
GARBAGE = [b"GET / HTTP/1.1\r\nHost: x\r\n\r\n", b"PROXZ TCP4 192.0.2.1 198.51.100.7 1 2\r\n", _SIG + b"\x11\x11" + struct.pack("!H", 12) + bytes(12),
           b"\x16\x03\x01\x02\x00\x01\x00\x01\xfc\x03\x03" + bytes(20), _SIG[:11] + b"X" + b"\x21\x11\x00\x0c" + bytes(12),
           # short segments that are not the beginning of either signature: nothing to wait for
           b"GE", b"hello", b"\r\nX", b"PROXZ", b"P "]


def must_pass_under(g, facts, via, srcs=None, to=None):
    via = list(via)
    w = _must_pass_under(g, facts, via, srcs=srcs, to=to)
    if w is None and not (reach_under(g, facts, srcs=srcs) & set(via)):
        return list(srcs)[:1] if srcs else [g.entry]
    return w


def _ranges(ks):
    ks = sorted(ks)
    out, i = [], 0
    while i < len(ks):
        j = i
        while j + 1 < len(ks) and ks[j + 1] == ks[j] + 1:
            j += 1
        out.append(f"{ks[i]}..{ks[j]}" if j > i else f"{ks[i]}")
        i = j + 1
    return ",".join(out)


def _raises(g, name):
    return [n.id for n in g.nodes if n.kind == "stmt" and g.reachable(n.id) and isinstance(n.ast, ast.Raise) and n.ast.exc is not None and name in src(n.ast.exc)]


def _consts(ctx):
    out = {}
    for rel, cls, names in ((V1, "V1Parser", ("PROXYSTR", "NEWLINE", "UNKNOWN_PROTO", "TCP4_PROTO", "TCP6_PROTO")), (V2, "V2Parser", ("PREFIX",))):
        ca = class_assigns(ctx.cls(rel, cls))
        env = {}
        for n in names:
            try:
                env[n] = peval(ca[n], env)
            except (KeyError, NotConst):
                ctx.need(None, f"{cls}.{n} constant")
        for n, v in env.items():
            out[f"{cls}.{n}"] = v
    return out


# ---- segmentation invariance with state carried across calls (wrapper + parsers interpreted together) -----------------------------

class _App(VMStub):
    def __init__(self):
        self.data = b""
        self.calls = 0

    def dataReceived(self, d):
        self.data += d
        self.calls += 1


def _vm(ctx, hooks=None, overrides=None):
    sib = {"._v1parser": ctx.mod(V1), "._v2parser": ctx.mod(V2), "._exceptions": ctx.mod("protocols/haproxy/_exceptions.py")}
    return MiniVM(ctx.mod(W), siblings=sib, hooks=hooks, overrides=overrides)


class _Parsed(VMStub):
    """what the stand-in parse() returns: remembers the header it was given; source/destination are present unless the header is
    of a kind that carries no addresses (v1 UNKNOWN, v2 LOCAL / UNSPEC)"""

    def __init__(self, line):
        self.header = bytes(line)
        if self.header.startswith(b"PROXY"):
            without = self.header.split(b" ")[1:2] == [b"UNKNOWN"]
        else:
            without = len(self.header) < 14 or (self.header[12] & 0x0F) == 0 or self.header[13] == 0
        self.source = None if without else ("source of", self.header)
        self.destination = None if without else ("destination of", self.header)

    def __eq__(self, other):
        return isinstance(other, _Parsed) and other.header == self.header

    def __hash__(self):
        return hash(self.header)

    def __repr__(self):
        return f"<parsed {self.header[:20]!r}...>"


class _Tr(VMStub):
    def getPeer(self):
        return "transport-peer"

    def getHost(self):
        return "transport-host"


def _drive(ctx, chunks, full=False):
    """Interpret HAProxyProtocolWrapper (with V1Parser / V2Parser / the exception classes from their own sources) on a sequence
    of deliveries to one fresh wrapper object; every attribute of wrapper and parser is carried from call to call.  parse() is
    replaced by a marker carrying the header it was given (parse is a pure function of it).  Only observable behaviour is
    reported: getPeer() / getHost() afterwards, the bytes the application received, whether the connection was closed."""
    closed = []
    parsed = []

    def parse(vm_, o, line):
        parsed.append(bytes(line))
        return _Parsed(line)

    vm = _vm(ctx, hooks={"loseConnection": lambda vm_, o: closed.append(1), "parse": parse})
    app = _App()
    w = vm.new(vm.cls("HAProxyProtocolWrapper"), None, app)
    w.attrs["wrappedProtocol"] = app
    w.attrs["transport"] = _Tr()
    raised = None
    try:
        for c in chunks:
            if closed:
                break
            vm.call_method(w, "dataReceived", c)
        peer, host = vm.call_method(w, "getPeer"), vm.call_method(w, "getHost")
    except (VMRaise, _NativeRaise) as e:
        raised, peer, host = repr(e)[:120], None, None
    if full:
        p = w.attrs.get("_parser")
        return {"peer": peer, "host": host, "forwarded": app.data, "closed": bool(closed), "parser": p.cls.name if isinstance(p, VMObj) else None,
                "parsed": list(parsed), "raised": raised}
    return (peer, host, app.data, bool(closed), raised)


def _expected(header, payload):
    m = _Parsed(header)
    return (m.source or "transport-peer", m.destination or "transport-host", payload, False, None)


class _Addr(VMStub):
    """recorder standing in for twisted.internet.address"""

    def __getattr__(self, kind):
        return lambda *a: (kind,) + tuple(a)


class _Info(VMStub):
    @staticmethod
    def ProxyInfo(header, source, destination):
        return ("ProxyInfo", bytes(header), source, destination)


class _Convert(VMContext):
    """stand-in for _exceptions.convertError(sourceType, targetType): an exception of sourceType raised in the block is replaced by targetType()"""

    def __init__(self, source, target):
        self.source, self.target = source, target

    def exit(self, vm, exc):
        if isinstance(exc, _NativeRaise) and isinstance(self.source, type) and isinstance(exc.native, self.source):
            raise VMRaise(vm.new(self.target))
        return False


def _evaluated(ctx, K):
    """Clauses decided by interpreting the sources on concrete inputs and comparing OUTPUTS with what the PROXY protocol prescribes;
    no statement structure is pinned here (helpers, guard clauses, partition vs split, loops vs unrolled code are all the same)."""
    q = QW + "dataReceived"

    def run(label, fn):
        try:
            return fn()
        except VMError as e:
            raise AnalysisError(f"{label}: construct outside the interpreter's subset: {e}")
        except (VMRaise, _NativeRaise) as e:
            return ("raised", repr(e)[:160])

    # ---- (a) the version sniff on the first segment --------------------------------------------------------------------------
    with ctx.section("sniffing"):
        nprefix = 0
        kmin = {}
        for ver, samples, pname in (("v1", V1_SAMPLES, "V1Parser"), ("v2", V2_SAMPLES, "V2Parser")):
            bad_k = set()
            witness = ""
            for name, h in samples.items():
                for k in range(1, len(h)):
                    nprefix += 1
                    r = run("sniff", lambda: _drive(ctx, [h[:k]], full=True))
                    if r["closed"]:
                        bad_k.add(k)
                        witness = witness or f"first segment {h[:k]!r} (first {k} bytes of a valid {ver} {name} header): the wrapper closes the connection"
                    elif r["parser"] == pname or (r["parser"] is None and not r["raised"] and k >= (16 if ver == "v2" else 8)):
                        kmin[ver] = min(kmin.get(ver, k), k)
            c = q + (f" | <{ver} header cut after {_ranges(bad_k)} bytes>" if bad_k else f" | <{ver} header cut anywhere>")
            ctx.check(not bad_k, "sniff/valid-prefix-rejected", c,
                      f"a valid PROXY {ver} header whose first segment ends after {_ranges(bad_k)} bytes makes the wrapper close the connection: the decision "
                      "'not a PROXY header' is taken from the length of the current segment instead of waiting for the discriminating prefix",
                      witness=witness)
            for name, h in samples.items():
                r = run("sniff", lambda: _drive(ctx, [h + b"payload"], full=True))
                want_hdr = h[:-2] if ver == "v1" else h
                ctx.check(r["parsed"] == [want_hdr] and not r["closed"] and r["forwarded"] == b"payload" and not r["raised"], "sniff/version-dispatch",
                          q + f" | <whole {ver} header {name}>",
                          f"a complete {ver} header in the first segment is not recognised as such (header handed to parse, exactly the payload forwarded): {r!r}")
        ctx.extra["prefixes_evaluated"] = nprefix
        for junk in GARBAGE:
            r = run("sniff", lambda: _drive(ctx, [junk], full=True))
            ok = (r["closed"] or r["parser"] is not None or r["parsed"]) and not (r["forwarded"] and not r["parsed"]) and not r["raised"]
            ctx.check(ok, "sniff/garbage-rejected", q + f" | <first segment {junk[:14]!r}...>",
                      f"a first segment that cannot begin a PROXY header is neither refused nor given to a parser, or reaches the application unparsed: {r!r}")

    # ---- (a') V1Parser.feed / V2Parser.feed as step functions ------------------------------------------------------------------
    def feeder(rel, cls_name):
        vm = MiniVM(ctx.mod(rel), siblings={"._exceptions": ctx.mod("protocols/haproxy/_exceptions.py")},
                    hooks={"parse": lambda vm_, o, line: _Parsed(line)})
        o = vm.new(vm.cls(cls_name))

        def feed(data):
            try:
                return vm.call_method(o, "feed", data)
            except VMRaise as e:
                return ("raised",) + tuple(e.exc.names()[:1])
        return feed

    with ctx.section("V1Parser.feed"):
        q1 = Q + "_v1parser.V1Parser.feed"
        nseg = 0
        for name, h in V1_SAMPLES.items():
            for k in sorted({1, 5, 8, len(h) // 2, len(h) - 2, len(h) - 1}):
                for payload in (b"", b"GET /\r\n\r\n"):
                    nseg += 1
                    feed = run("V1Parser.feed", lambda: feeder(V1, "V1Parser"))
                    r1 = run("V1Parser.feed", lambda: feed(h[:k]))
                    r2 = run("V1Parser.feed", lambda: feed(h[k:] + payload))
                    ctx.check(tuple(r1 or ()) == (None, None), "v1feed/incomplete-waits", q1 + f" | <{name} header, first {k} of {len(h)} bytes>",
                              f"an incomplete v1 header is rejected or parsed instead of waiting for the rest: feed() returned {r1!r}")
                    ctx.check(tuple(r2 or ()) == (_Parsed(h[:-2]), payload), "v1feed/completed-header-parsed",
                              q1 + f" | <{name} header completed by the 2nd segment after {k} bytes, payload {payload[:6]!r}>",
                              f"a header completed by a later segment does not yield (parse(text before the first CRLF), bytes after it): feed() returned {r2!r} "
                              "(a payload containing CRLF must not be cut, header and payload must not be swapped)")
        ctx.extra["feed_segmentations_evaluated"] = nseg
        feed = run("V1Parser.feed", lambda: feeder(V1, "V1Parser"))
        r = run("V1Parser.feed", lambda: feed(b"PROXY TCP6 " + b"f" * 95))
        ctx.check(tuple(r or ()) == (None, None), "v1feed/length-limit-admits-longest-header", q1 + " | <106 bytes buffered, no CRLF yet>",
                  f"a v1 header of the maximum legal length (107 bytes with CRLF) is refused while its CRLF is still in flight: {r!r}")
        feed = run("V1Parser.feed", lambda: feeder(V1, "V1Parser"))
        r = run("V1Parser.feed", lambda: feed(b"P" * 300))
        ctx.check(isinstance(r, tuple) and r[:1] == ("raised",) and "InvalidProxyHeader" in r, "v1feed/length-limit", q1 + " | <300 bytes, no CRLF>",
                  f"an endless first line is buffered without limit: {r!r}")

    with ctx.section("V2Parser.feed"):
        q2 = Q + "_v2parser.V2Parser.feed"
        km = kmin.get("v2")
        ctx.need(km, "a first-segment length for which the wrapper selects V2Parser")
        for name, h in V2_SAMPLES.items():
            for k in sorted(set(range(km, min(len(h), km + 4))) | {len(h) - 1}):
                if not (km <= k < len(h)):
                    continue
                for payload in (b"", b"hello"):
                    feed = run("V2Parser.feed", lambda: feeder(V2, "V2Parser"))
                    r1 = run("V2Parser.feed", lambda: feed(h[:k]))
                    r2 = run("V2Parser.feed", lambda: feed(h[k:] + payload))
                    ctx.check(tuple(r1 or ()) == (None, None), "v2feed/incomplete-waits",
                              q2 + f" | <{name} header, first {k} of {len(h)} bytes (wrapper selects V2Parser from {km} bytes)>",
                              f"an incomplete v2 header that the wrapper already routed to V2Parser is rejected, parsed or dropped instead of waiting: {r1!r}")
                    ctx.check(tuple(r2 or ()) == (_Parsed(h), payload), "v2feed/completed-header-parsed",
                              q2 + f" | <{name} header completed after a cut at {k}, payload {payload!r}>",
                              f"a v2 header whose last byte has just arrived does not yield (parse(16 + length bytes), the rest): {r2!r}")

    # ---- getPeer / getHost ----------------------------------------------------------------------------------------------------------
    with ctx.section("getPeer/getHost"):
        # observed through the wrapper itself after it has (or has not) seen a header; no attribute name is assumed
        cases = [("no header yet", [], ("transport-peer", "transport-host"))]
        for ver, samples in (("v1", V1_SAMPLES), ("v2", V2_SAMPLES)):
            for name, h in samples.items():
                m = _Parsed(h[:-2] if ver == "v1" else h)
                cases.append((f"{ver} {name} header", [h + b"x"], (m.source or "transport-peer", m.destination or "transport-host")))
        for lab, chunks, (peer, host) in cases:
            r = run("getPeer/getHost", lambda: _drive(ctx, chunks, full=True))
            with_addr = peer != "transport-peer"
            for meth, got, want in (("getPeer", r.get("peer") if isinstance(r, dict) else r, peer), ("getHost", r.get("host") if isinstance(r, dict) else r, host)):
                ctx.check(got == want, "wrapper/address-from-header" if with_addr else "wrapper/address-fallback", QW + meth + f" | <{lab}>",
                          f"after {lab}, {meth}() answers {got!r}; it must answer {want!r} (the header's "
                          f"{'source' if meth == 'getPeer' else 'destination'} address when it carried one, else the transport's own)")

    # ---- V1Parser.parse on concrete lines ----------------------------------------------------------------------------------------------
    with ctx.section("V1Parser.parse"):
        qp = Q + "_v1parser.V1Parser.parse"
        vm = MiniVM(ctx.mod(V1), siblings={"._exceptions": ctx.mod("protocols/haproxy/_exceptions.py")},
                    overrides={"address": _Addr(), "_info": _Info(), "convertError": lambda s_, t_: _Convert(s_, t_)})
        cls = vm.cls("V1Parser")

        def parse(line):
            try:
                return vm.call(vm.getattr(cls, "parse"), [line], {})
            except VMRaise as e:
                return ("raised", e.exc.names()[0], "InvalidProxyHeader" in e.exc.names())
            except _NativeRaise as e:
                return ("raised-native", type(e.native).__name__)
        for name, h in V1_SAMPLES.items():
            line = h[:-2]
            f_ = line.split(b" ")
            if name == "UNKNOWN":
                want = ("ProxyInfo", line, None, None)
            else:
                kind = "IPv4Address" if name == "TCP4" else "IPv6Address"
                want = ("ProxyInfo", line, (kind, "TCP", f_[2].decode(), int(f_[4])), (kind, "TCP", f_[3].decode(), int(f_[5])))
            r = run("V1Parser.parse", lambda: parse(line))
            ctx.check(r == want, "parse/v1-evaluated", qp + f" | <{name} line>",
                      f"parse({line!r}) gives {r!r}; 'PROXY proto src dst sport dport' means {want!r} (source = (src, sport), destination = (dst, dport))")
        for line, exc in ((b"PROXZ TCP4 192.0.2.1 198.51.100.7 1 2", "InvalidProxyHeader"), (b"PROXY TCP9 192.0.2.1 198.51.100.7 1 2", "InvalidNetworkProtocol"),
                          (b"PROXY TCP4 192.0.2.1 198.51.100.7", "MissingAddressData"), (b"PROXY", "InvalidProxyHeader")):
            r = run("V1Parser.parse", lambda: parse(line))
            ctx.check(isinstance(r, tuple) and r[:1] == ("raised",) and r[2] is True, "parse/v1-invalid-lines-refused", qp + f" | <{line[:14]!r}...>",
                      f"parse({line!r}) gives {r!r}; an InvalidProxyHeader (or subclass {exc}) is required so that the wrapper closes the connection")
    # ---- V2Parser.parse: structural LOCAL clause + evaluation on the sample headers ---------------------------------------------------------
    with ctx.section("V2Parser.parse"):
        qp2 = Q + "_v2parser.V2Parser.parse"
        fp2 = _F(ctx, V2, "V2Parser.parse")
        gp2 = ctx.cfg(fp2)
        # structural: a LOCAL command carries no addresses - its family/protocol byte and address block are not interpreted at all
        lookups = call_nodes(gp2, ".lookupByValue") + [n.id for n in gp2.nodes if n.kind == "stmt" and gp2.reachable(n.id) and "ADDRESSFORMATS[" in src(n.ast)]
        local_tests = [t.id for t in gp2.nodes if t.kind == "test" and gp2.reachable(t.id) and "_LOCALCOMMAND" in src(resolve_locals(fp2, t.ast))]
        if not lookups or not local_tests:
            ctx.note("parse/v2-local-ignores-address-block: LOCAL test / family lookups not recognised in V2Parser.parse; clause left to parse/v2-evaluated")
        else:
            lf = {"cls.COMMANDS[command]": "LOCAL", "_LOCALCOMMAND": "LOCAL", "_PROXYCOMMAND": "PROXY"}
            srcs_ = local_tests
            R = reach_under(gp2, lf, srcs=srcs_)
            ctx.check(not (R & set(lookups)) and all(gp2.must_precede(local_tests, [l_]) is None for l_ in lookups), "parse/v2-local-ignores-address-block", qp2 + " | <LOCAL command>",
                      "for a LOCAL header (health check of the proxy itself) the family/protocol byte is looked up / the address block is interpreted before, or in spite "
                      "of, the LOCAL test: a valid LOCAL header with an unspecified or unknown family byte is refused instead of being accepted without addresses",
                      witness=gp2.describe(path_under(gp2, lf, set(lookups), srcs=srcs_)) if R & set(lookups) else
                      gp2.describe(next((w_ for w_ in (gp2.must_precede(local_tests, [l_]) for l_ in lookups) if w_), None)))
        # evaluated on the sample headers (constantly.Values replaced by a stand-in built from the class bodies)
        class _Const(VMStub):
            def __init__(self, name, value):
                self.name, self.value = name, value

            def __repr__(self):
                return f"<{self.name}>"

        def values_stub(cls_name):
            ca = class_assigns(ctx.cls(V2, cls_name))
            consts = {k: _Const(f"{cls_name}.{k}", peval(v.args[0], {})) for k, v in ca.items() if isinstance(v, ast.Call) and call_name(v) == "ValueConstant" and v.args}

            class _Vals(VMStub):
                pass
            st = _Vals()
            for k, c_ in consts.items():
                setattr(st, k, c_)

            def lookup(v):
                for c_ in consts.values():
                    if c_.value == v:
                        return c_
                raise ValueError(v)
            st.lookupByValue = lookup
            return st

        class _Compat(VMStub):
            @staticmethod
            def iterbytes(b):
                return [b[i:i + 1] for i in range(len(b))]

        vm = MiniVM(ctx.mod(V2), siblings={"._exceptions": ctx.mod("protocols/haproxy/_exceptions.py")},
                    overrides={"address": _Addr(), "_info": _Info(), "convertError": lambda s_, t_: _Convert(s_, t_), "compat": _Compat(),
                               "NetFamily": values_stub("NetFamily"), "NetProtocol": values_stub("NetProtocol")})
        pcls = vm.cls("V2Parser")

        def parse2(line):
            try:
                return vm.call(vm.getattr(pcls, "parse"), [line], {})
            except VMError as e:
                raise AnalysisError(f"V2Parser.parse: construct outside the interpreter's subset: {e}")
            except VMRaise as e:
                return ("raised", e.exc.names()[0])
            except _NativeRaise as e:
                return ("raised-native", type(e.native).__name__)

        def ip6(b):
            return ":".join("%x" % int.from_bytes(b[i:i + 2], "big") for i in range(0, 16, 2))
        h4, h6, hu, hl = (V2_SAMPLES[k] for k in ("INET/STREAM", "INET6/DGRAM+TLV", "UNIX/STREAM", "LOCAL"))
        cases = [("INET/STREAM", h4, ("ProxyInfo", h4, ("IPv4Address", "TCP", "192.0.2.1", 56324), ("IPv4Address", "TCP", "198.51.100.7", 443))),
                 ("INET6/DGRAM+TLV", h6, ("ProxyInfo", h6, ("IPv6Address", "UDP", ip6(h6[16:32]), 1), ("IPv6Address", "UDP", ip6(h6[32:48]), 2))),
                 ("UNIX/STREAM", hu, ("ProxyInfo", hu, ("UNIXAddress", b"/a"), ("UNIXAddress", b"/b"))),
                 ("LOCAL", hl, ("ProxyInfo", hl, None, None))]
        for fam in (0x00, 0x11, 0x50, 0xFF, 0x13):
            hx = _SIG + b"\x20" + bytes([fam]) + struct.pack("!H", 0)
            cases.append((f"LOCAL with family/protocol byte {fam:#04x}", hx, ("ProxyInfo", hx, None, None)))
        hun = _SIG + b"\x21\x00" + struct.pack("!H", 0)
        cases.append(("PROXY command with UNSPEC family", hun, ("ProxyInfo", hun, None, None)))
        for lab, hdr, want in cases:
            r = parse2(hdr)
            ctx.check(r == want, "parse/v2-evaluated", qp2 + f" | <{lab}>", f"parse() of a valid v2 {lab} header gives {r!r}; the PROXY protocol prescribes {want!r}")
        for lab, hdr in (("version 1 in a v2 signature", _SIG + b"\x11\x11" + struct.pack("!H", 12) + bytes(12)), ("unknown command", _SIG + b"\x2f\x11" + struct.pack("!H", 12) + bytes(12)),
                         ("PROXY command with an undefined family", _SIG + b"\x21\x51" + struct.pack("!H", 12) + bytes(12)), ("address block cut short", _SIG + b"\x21\x11" + struct.pack("!H", 4) + bytes(4))):
            r = parse2(hdr)
            ctx.check(isinstance(r, tuple) and r[:1] == ("raised",), "parse/v2-invalid-headers-refused", qp2 + f" | <{lab}>",
                      f"parse() of an invalid v2 header ({lab}) gives {r!r}; an InvalidProxyHeader (or subclass) is required so that the wrapper closes the connection")
        # every address family has a fixed-size address block: a header that declares / carries fewer bytes than that is malformed, whichever family
        for fam_name, fam_byte, size in (("INET/STREAM", 0x11, 12), ("INET/DGRAM", 0x12, 12), ("INET6/STREAM", 0x21, 36), ("INET6/DGRAM", 0x22, 36),
                                         ("UNIX/STREAM", 0x31, 216), ("UNIX/DGRAM", 0x32, 216)):
            for cut in sorted({0, 1, size // 2, size - 1}):
                hdr = _SIG + b"\x21" + bytes([fam_byte]) + struct.pack("!H", cut) + (b"/p" + bytes(size))[:cut]
                r = parse2(hdr)
                ctx.check(isinstance(r, tuple) and r[:1] == ("raised",), "parse/v2-invalid-headers-refused", qp2 + f" | <{fam_name} address block of {cut} instead of {size} bytes>",
                          f"parse() of a v2 {fam_name} header whose address block has only {cut} of the {size} bytes the family requires gives {r!r}; an "
                          "InvalidProxyHeader (or subclass) is required so that the wrapper closes the connection and delivers nothing")
    return kmin


def _cuts(stream, hlen, first_min, thorough, sparse=False):
    """every 2-way cut; 3-way cuts over the positions around the signature, the version decision and the end of the header (all positions in the
    thorough tier for short streams; ``sparse``: a thinner selection of the same regions, used in the quick tier for the additional payloads)"""
    n = len(stream)
    two = [(i,) for i in range(first_min, n)]
    hot = sorted({i for i in list(range(first_min, first_min + 17)) + list(range(hlen - 3, hlen + 4)) + [(first_min + hlen) // 2, n - 1] if first_min <= i < n})
    if sparse and not thorough:
        hot = sorted({i for i in [first_min, first_min + 4, first_min + 7, first_min + 11, first_min + 12, first_min + 15, hlen - 1, hlen, hlen + 1, n - 1] if first_min <= i < n})
    pool = list(range(first_min, n)) if thorough and n <= 70 else hot
    three = [(i, j) for i in pool for j in pool if i < j]
    return two + three


def _segmentation(ctx):
    total = 0
    payloads = [b"hello", b"", b"a\r\nb\r\n"]
    for ver, samples, first_min in (("v1", V1_SAMPLES, 1), ("v2", V2_SAMPLES, 1)):
        for name, h in samples.items():
            for pl in payloads:
                stream = h + pl
                label = f"{ver} {name} header + payload {pl!r}"
                with ctx.section("segmentation " + label):
                    c = QW + f"dataReceived | <{label}>"
                    try:
                        whole = _drive(ctx, [stream])
                        want_hdr = h[:-2] if ver == "v1" else h
                        ctx.check(whole == _expected(want_hdr, pl), "segmentation/whole-stream", c,
                                  f"delivered in one segment, header + payload give (getPeer, getHost, forwarded, closed, raised) = {whole!r}; expected the "
                                  f"header's addresses (or the transport's for an address-less header), exactly {pl!r} forwarded, connection open")
                        bad = None
                        n = 0
                        for cuts in _cuts(stream, len(h), first_min, ctx.tier == "thorough", sparse=pl != payloads[0]):
                            pts = (0,) + cuts + (len(stream),)
                            chunks = [stream[a:b] for a, b in zip(pts, pts[1:])]
                            got = _drive(ctx, chunks)
                            n += 1
                            if got != whole:
                                bad = (chunks, got)
                                break
                        total += n
                    except VMError as e:
                        raise AnalysisError(f"haproxy wrapper/parsers: construct outside the interpreter's subset: {e}")
                    except (VMRaise, _NativeRaise) as e:
                        ctx.violation("segmentation/invariant", c, f"interpreting the wrapper on {stream[:40]!r}... raises {e}")
                        continue
                    ctx.check(bad is None, "segmentation/invariant", c,
                              "what the application sees depends on how header + payload are cut into segments: " + (f"delivered as {[bytes(x[:24]) + (b'...' if len(x) > 24 else b'') for x in bad[0]]!r} -> (getPeer, getHost, forwarded, closed, raised) = "
                                                    f"{bad[1]!r}; delivered at once -> {whole!r}" if bad else ""),
                              detail=f"{n} segmentations agree with whole-stream delivery")
    ctx.extra["segmentations_evaluated"] = total


def check(ctx):
    from sa.props._lib_d import Guarded
    _check(Guarded(ctx, RULE_KINDS))


def _check(ctx):
    K = {}
    wr = []          # becomes non-empty once the wrapper's anchors were read
    with ctx.section("protocol constants"):
        K.update(_consts(ctx))
    with ctx.section("wrapper anchors"):
        # ---- sec: wrapper anchors
        ctx.need(bool(K), "V1Parser / V2Parser constants")
        wfacts = {"V2Parser.PREFIX": K["V2Parser.PREFIX"], "V1Parser.PROXYSTR": K["V1Parser.PROXYSTR"]}
        # the first segment meets the object as __init__ left it
        init = _F(ctx, W, "HAProxyProtocolWrapper.__init__")
        for st in walk_local(init):
            tgt = st.targets[0] if isinstance(st, ast.Assign) and len(st.targets) == 1 else (st.target if isinstance(st, ast.AnnAssign) and st.value is not None else None)
            if tgt is not None and isinstance(tgt, ast.Attribute) and src(tgt.value) == "self":
                try:
                    v = peval(st.value, {})
                except NotConst:
                    continue
                if isinstance(v, (int, bytes, str, bool, type(None))):
                    wfacts[src(tgt)] = v
        ctx.need(wfacts.get("self._proxyInfo", 0) is None and wfacts.get("self._parser", 0) is None, "__init__ sets _proxyInfo = None and _parser = None")

        # ================= (a) sniffing, evaluated on concrete first segments =====================================================
        f = _F(ctx, W, "HAProxyProtocolWrapper.dataReceived")
        g = ctx.cfg(f)
        q = QW + "dataReceived"
        dparam = f.args.args[1].arg
        forwards = calls_with(g, "self.wrappedProtocol.dataReceived")
        fw = [n for n, _ in forwards]
        feeds = [(n, c) for n, c in calls_with(g, ".feed")]
        ctx.need(feeds, "parser.feed(data) in HAProxyProtocolWrapper.dataReceived")
        fd = [n for n, _ in feeds]
        handlers = {h for n in fd for h in succ_of(g, n, "exc") if g.node(h).kind == "handler"}
        closes = call_nodes(g, "self.loseConnection", "self.transport.loseConnection", "self.transport.abortConnection")
        reject = [n for n in closes if not any(g.dominates(h, n) for h in handlers)]
        ctx.check(bool(reject), "sniff/garbage-rejected", q + " | <site>", "a stream that does not start with a PROXY header is never refused")
        # where a parser object is stored for the following segments (whatever builds it)
        mk = self_assigns(g, "_parser", lambda v: not const_value_is(v, lambda x: x is None))
        ctx.need(mk, "the place where the chosen parser is stored in self._parser")
        wr.append(True)

    with ctx.section("wrapper ordering"):
        ctx.need(bool(wr), "anchors of HAProxyProtocolWrapper.dataReceived")
        # ================= (b) ordering in the wrapper ================================================================================
        for n, call in feeds:
            c = ctx.construct(q, call)
            ctx.check(len(call.args) == 1 and src(call.args[0]) == dparam, "wrapper/feeds-segment", c, "the parser is not fed exactly the received segment")
            st = g.node(n).ast
            tg = st.targets[0] if isinstance(st, ast.Assign) else None
            pair = isinstance(tg, ast.Tuple) and len(tg.elts) == 2 and isinstance(tg.elts[1], ast.Name)
            rem = tg.elts[1].id if pair else None
            if pair and src(tg.elts[0]) == "self._proxyInfo":
                ctx.ok("wrapper/feed-result-stored", c)
            elif pair and isinstance(tg.elts[0], ast.Name):
                # (info, remaining) unpacked into locals: the first must reach self._proxyInfo on every normal way out, unchanged
                iv = tg.elts[0].id
                stores = self_assigns(g, "_proxyInfo", lambda v: isinstance(v, ast.Name) and v.id == iv)
                rebound = [x.id for x in g.nodes if x.kind == "stmt" and x.id != n and x.ast is not None and iv in written_names(x.ast)]
                w = g.must_pass([s_ for s_ in succ_of(g, n, None)], stores) if stores else [n]
                ctx.check(bool(stores) and w is None and not rebound, "wrapper/feed-result-stored", c,
                          "the parsed header returned by feed() is unpacked into a local that does not reach self._proxyInfo on every path (later segments are "
                          "parsed as a header again)", witness=g.describe(w))
            else:
                ctx.note("wrapper/feed-result-stored, wrapper/only-remaining-forwarded: the result of feed() is not unpacked into (info, remaining) here (" + c +
                         "); what is stored and forwarded is decided by the evaluated rules (segmentation/*)")
            hs = [h for h in succ_of(g, n, "exc") if g.node(h).kind == "handler"]
            good_h = [h for h in hs if set(handler_names(g.node(h).ast)) & {"InvalidProxyHeader", "Exception", "BaseException"}]
            ctx.check(bool(good_h), "wrapper/invalid-header-closes", c + " | handler",
                      "InvalidProxyHeader (and its subclasses) raised by feed() is not caught around the call: an invalid header is not turned into a clean close")
            for h in good_h:
                w = g.must_pass([h], closes)
                ctx.check(w is None, "wrapper/invalid-header-closes", ctx.construct(q, f"except {', '.join(handler_names(g.node(h).ast))}:"),
                          "an invalid header does not close the connection", witness=g.describe(w))
                R = g.reach([h], edge_ok=lambda a, b, l: l != "exc")
                ctx.check(not (set(R) & set(fw)), "wrapper/invalid-header-forwards-nothing", ctx.construct(q, f"except {', '.join(handler_names(g.node(h).ast))}:") + " | nothing forwarded",
                          "bytes are handed to the application after the header was found invalid")
            for m, fc in forwards:
                a = src(fc.args[0]) if fc.args else ""
                cf = ctx.construct(q, fc)
                if implied(g, m, [{"self._proxyInfo": NONNULL}], [{"self._proxyInfo": None}]):
                    ctx.check(a == dparam, "wrapper/pass-through", cf, "after the header, the application is not given exactly the received segment")
                elif rem is None:
                    continue
                else:
                    ok2 = a == rem and g.must_precede([n], [m], exc=True) is None and g.path([n], [m], edge_ok=lambda a_, b_, l: l != "exc") is not None
                    ctx.check(ok2, "wrapper/only-remaining-forwarded", cf,
                              "bytes reach the application that are neither post-header pass-through nor the 'remaining' part returned by feed(): "
                              "header bytes leak to the application (or data is forwarded before the header was parsed)")
                    ctx.check(implied(g, m, [{a: b"x"}], [{a: b""}]) or implied(g, m, [{a: b"x"}], [{a: None}]), "wrapper/remaining-nonempty", cf,
                              "the application is called with nothing / None when the header is still incomplete")
        ctx.floor("wrapper/forward-sites", len(forwards), 2)
        facts = {"self._proxyInfo": NONNULL}
        w = must_pass_under(g, facts, [m for m, fc in forwards if fc.args and src(fc.args[0]) == dparam])
        R = reach_under(g, facts)
        ctx.check(w is None and not (R & set(fd)) and not (R & set(reject)), "wrapper/pass-through", q + " | <header already parsed>",
                  "once the header is parsed, later segments are not passed straight through (they are parsed / sniffed again)", witness=g.describe(w))
        facts = {"self._proxyInfo": None, "self._parser": NONNULL}
        w = must_pass_under(g, facts, fd)
        R = reach_under(g, facts, avoid=fd)
        ctx.check(w is None and not (R & set(reject)) and not (R & set(mk)), "wrapper/parser-kept-across-segments", q + " | <parser chosen, header incomplete>",
                  "the next segment of an incomplete header is sniffed again instead of being fed to the parser chosen for the first segment",
                  witness=g.describe(w))
        acc = class_accesses(ctx.mod(W), ctx.cls(W, "HAProxyProtocolWrapper"), {"_proxyInfo"}, {"self"})
        for a in acc:
            inl_ = _views(ctx).inliner(W)
            fn_ = a.func.split(".")[-1]
            from_feed = {t.elts[0].id for n in fd for st_ in [g.node(n).ast] if isinstance(st_, ast.Assign) for t in st_.targets
                         if isinstance(t, ast.Tuple) and len(t.elts) == 2 and isinstance(t.elts[0], ast.Name)}
            from_feed = {v for v in from_feed if sum(1 for x in walk_local(f) if isinstance(x, ast.stmt) and v in written_names(x)) == 1}
            via_local = isinstance(a.node, ast.Assign) and isinstance(a.node.value, ast.Name) and a.node.value.id in from_feed
            ok = inl_.permitted(fn_, {"__init__"}) or (inl_.permitted(fn_, {"dataReceived"}) and (via_local or any(src(a.node) == src(g.node(n).ast) for n in fd)))
            ctx.check(ok, "wrapper/proxyinfo-who-may-write", ctx.construct(Q + "_wrapper." + a.func, a.node), "_proxyInfo is set from something other than the parser's result")
    kmin = _evaluated(ctx, K)
    with ctx.section("sniff, structural layer"):
        ctx.need(bool(wr), "anchors of HAProxyProtocolWrapper.dataReceived")
        # (a) first layer: which first-segment LENGTHS are refused without the code ever looking at the segment's content.  The branch decisions of
        # the normalised view are evaluated for every length below the largest length threshold the function compares with; content tests are not
        # evaluated at all (paths through them are not followed).  Exhaustive over that length range because the length is only compared with constants.
        lentxt = f"len({dparam})"
        thresholds = []
        content = []
        for t in g.nodes:
            if t.kind != "test" or not g.reachable(t.id):
                continue
            e = resolve_locals(f, t.ast)
            txt = src(e)
            nf = lincmp(e)
            if nf is not None and set(dict(nf[0])) == {lentxt} and abs(dict(nf[0])[lentxt]) == 1:
                thresholds.append(abs(nf[1]) + 1)
            elif dparam in txt.replace(lentxt, ""):
                content.append(t.id)
        rebound = any(dparam in written_names(st) for st in walk_local(f) if isinstance(st, ast.stmt))
        if rebound:
            ctx.note("sniff/short-segment-refused: the received segment is re-bound (joined with buffered bytes?) before it is measured, so its length is no "
                     "longer the segment's; clause left to sniff/valid-prefix-rejected (interpreted)")
        elif not thresholds:
            ctx.note("sniff/short-segment-refused: no length test on the received segment recognised in dataReceived (sniff in a helper that is not inlined?); "
                     "clause left to sniff/valid-prefix-rejected (interpreted)")
        else:
            ks = [k for k in range(1, max(thresholds) + 1)
                  if reach_under(g, dict(wfacts, **{lentxt: k}), avoid=content + fd) & set(reject)]
            ctx.check(not ks, "sniff/short-segment-refused", q + (f" | <a first segment of {_ranges(ks)} bytes is refused whatever it contains>" if ks else " | <lengths>"),
                      f"a first segment of {_ranges(ks)} bytes is refused on its length alone, before any byte of it is compared with a signature: the start of a valid "
                      "header delivered in a short segment closes the connection (the decision must wait until the discriminating prefix is buffered)",
                      detail=f"lengths 1..{max(thresholds)} evaluated; length compared only with constants {sorted(set(thresholds))}")
        # signature slice widths agree with the signature constants (table agreement)
        nsl = 0
        for fn in [f] + [m for _, m in _M(ctx, W, "HAProxyProtocolWrapper")]:
            for cmp_ in (x for x in walk_local(fn) if isinstance(x, ast.Compare) and len(x.ops) == 1 and isinstance(x.ops[0], (ast.Eq, ast.NotEq))):
                for a_, b_ in ((cmp_.left, cmp_.comparators[0]), (cmp_.comparators[0], cmp_.left)):
                    key = {"V2Parser.PREFIX": "V2Parser.PREFIX", "V1Parser.PROXYSTR": "V1Parser.PROXYSTR"}.get(src(b_))
                    sp_ = slice_parts(a_)
                    if key and sp_ and sp_[1] is None and sp_[2] is not None:
                        nsl += 1
                        ctx.check(const_value_is(sp_[2], lambda v, key=key: v == len(K[key])), "sniff/signature-widths", ctx.construct(QW + getattr(fn, "name", "?"), cmp_),
                                  f"the slice compared with {key} is not len({key}) = {len(K[key])} bytes wide: the signature can never match")
        if not nsl:
            ctx.note("sniff/signature-widths: no 'segment[:k] == SIGNATURE' comparison recognised; clause left to sniff/version-dispatch (interpreted)")

    with ctx.section("feed, structural layer"):
        # V1Parser.feed: the line terminator is searched in the ACCUMULATED buffer, never in the newly fed chunk alone
        f1 = _F(ctx, V1, "V1Parser.feed")
        d1 = f1.args.args[1].arg
        q1 = Q + "_v1parser.V1Parser.feed"
        searched = []
        for x in walk_local(f1):
            if isinstance(x, ast.Compare) and len(x.ops) == 1 and isinstance(x.ops[0], (ast.In, ast.NotIn)) and src(resolve_locals(f1, x.left)) == "self.NEWLINE":
                searched.append((x, x.comparators[0]))
            elif isinstance(x, ast.Call) and isinstance(x.func, ast.Attribute) and x.func.attr in ("split", "partition", "find", "index") and x.args \
                    and src(resolve_locals(f1, x.args[0])) == "self.NEWLINE":
                searched.append((x, x.func.value))
        if not searched:
            ctx.note("v1feed/terminator-searched-in-buffer: no search for self.NEWLINE recognised in V1Parser.feed; clause left to v1feed/* and segmentation/invariant (interpreted)")
        for x, where in searched:
            txt = src(resolve_locals(f1, where))
            only_chunk = txt == d1 or (d1 in txt and "self.buffer" not in txt)
            ctx.check(not only_chunk, "v1feed/terminator-searched-in-buffer", ctx.construct(q1, x),
                      "the CRLF that ends the header is looked for in the newly received segment instead of the accumulated buffer: a header cut between CR and "
                      "LF (or whose CRLF straddles two segments) is never recognised as complete")
        # V2Parser.feed: the header is complete exactly when len(buffer) >= 16 + length field
        f2 = _F(ctx, V2, "V2Parser.feed")
        g2 = ctx.cfg(f2)
        q2 = Q + "_v2parser.V2Parser.feed"
        parse2 = call_nodes(g2, "self.parse", "cls.parse", "V2Parser.parse")
        forms = []
        for t in g2.nodes:
            if t.kind != "test" or not g2.reachable(t.id):
                continue
            e = resolve_locals(f2, t.ast)
            nf = lincmp(e)
            if nf is None or len(dict(nf[0])) != 2 or not any(k.startswith("len(") for k in dict(nf[0])):
                continue
            via = {lab: bool(set(g2.reach(succ_of(g2, t.id, lab), edge_ok=lambda a, b, l: l != "exc")) & set(parse2)) for lab in ("T", "F")}
            if via["T"] != via["F"]:
                forms.append((t.id, lincmp(e, negate=via["F"])))
        if not forms or not parse2:
            ctx.note("v2feed/completeness-normal-form: no 'len(buffer) vs 16 + length field' guard recognised in V2Parser.feed; clause left to v2feed/* (interpreted)")
        for t, nf in forms:
            d_ = dict(nf[0])
            lenk = next(k for k in d_ if k.startswith("len("))
            other = next(k for k in d_ if k != lenk)
            ctx.check(d_[lenk] == 1 and d_[other] == -1 and nf[1] == 16, "v2feed/completeness-normal-form", ctx.construct(q2, g2.node(t).ast),
                      f"a v2 header is handed to parse() exactly when 'len(buffer) - <length field> >= 16'; the guard normalises to {sorted(d_.items())} >= {nf[1]}: "
                      "a header whose last byte has arrived waits for more data, or an incomplete one is parsed")

    with ctx.section("ADDRESSFORMATS"):
        # ================= (c) tables and constants ========================================================================================
        ca2 = class_assigns(ctx.cls(V2, "V2Parser"))
        try:
            fmts = peval(ca2["ADDRESSFORMATS"], {}) if False else {peval(k, {}): peval(v, {}) for k, v in zip(ca2["ADDRESSFORMATS"].keys, ca2["ADDRESSFORMATS"].values)}
        except (KeyError, NotConst, AttributeError):
            fmts = None
        ctx.need(isinstance(fmts, dict), "V2Parser.ADDRESSFORMATS literal")
        fam = {}
        for cname in ("NetFamily", "NetProtocol"):
            cdef = ctx.cls(V2, cname)
            vals = {}
            for k, v in class_assigns(cdef).items():
                if isinstance(v, ast.Call) and call_name(v) == "ValueConstant" and v.args:
                    vals[k] = peval(v.args[0], {})
            fam[cname] = vals
        spec_size = {0x10: 12, 0x20: 36, 0x30: 216}
        for fn, fv in fam["NetFamily"].items():
            for pn, pv in fam["NetProtocol"].items():
                if fn == "UNSPEC" or pn == "UNSPEC":
                    continue
                key = fv | pv
                c = Q + f"_v2parser.V2Parser.ADDRESSFORMATS[{fn}|{pn} = {key:#04x}]"
                okk = key in fmts
                if okk:
                    try:
                        okk = struct.calcsize(fmts[key]) == spec_size.get(fv) and fmts[key][:1] in ("!", ">")
                    except struct.error:
                        okk = False
                ctx.check(okk, "v2table/address-formats", c,
                          "no address format (or one of the wrong size / byte order) for a family|protocol byte the parser accepts: a valid header ends in KeyError "
                          "or mis-sliced addresses")
        ctx.floor("v2table/address-formats", len(fmts), 3)
    with ctx.section("V2Parser.parse address block"):
        # ---- sec: v2 slice
        fp2 = _F(ctx, V2, "V2Parser.parse")
        sl = [x for x in walk_local(fp2) if isinstance(x, ast.Assign) and slice_parts(x.value) and "calcsize" in src(x.value)]
        ok = False
        for st in sl:
            v, lo, hi = slice_parts(st.value)
            fmtname = None
            for c in ast.walk(hi):
                if isinstance(c, ast.Call) and call_name(c) in ("struct.calcsize", "calcsize") and c.args:
                    fmtname = src(c.args[0])
            ups = [c for c in walk_local(fp2) if isinstance(c, ast.Call) and call_name(c) in ("struct.unpack", "unpack") and len(c.args) == 2]
            try:
                width_ok = peval(hi, {f"struct.calcsize({fmtname})": 12, f"calcsize({fmtname})": 12}) - peval(lo, {}) == 12 and peval(lo, {}) == 16
            except (NotConst, TypeError):
                width_ok = False
            ok = width_ok and bool(ups) and all(src(c.args[0]) == fmtname and src(c.args[1]) == src(st.targets[0]) for c in ups) and \
                src(local_def(fp2, ast.Name(id=fmtname))) == "cls.ADDRESSFORMATS[familyProto]"
        ctx.check(ok, "v2table/slice-width", Q + "_v2parser.V2Parser.parse | <address block>",
                  "the address block is not line[16 : 16 + calcsize(format)] unpacked with that same format chosen by the family|protocol byte")
    with ctx.section("V2Parser.parse address block length"):
        # every way the fields are taken out of the address block must be able to refuse a block that is too short: struct.unpack with the family's
        # fixed-size format inside convertError(struct.error, ...) / try-except struct.error, or slicing behind a test of the block's length
        fp2 = _F(ctx, V2, "V2Parser.parse")
        g2 = ctx.cfg(fp2)
        blocks = {src(x.targets[0]) for x in walk_local(fp2) if isinstance(x, ast.Assign) and len(x.targets) == 1 and isinstance(x.targets[0], ast.Name)
                  and slice_parts(x.value) and "calcsize" in src(x.value)}
        if not blocks:
            ctx.note("parse/v2-address-block-length-validated: the address block variable of V2Parser.parse was not recognised; clause left to "
                     "parse/v2-invalid-headers-refused")

        def _guarded(node):
            p_ = getattr(node, "_parent", None)
            while p_ is not None and p_ is not fp2:
                if isinstance(p_, ast.With) and any("convertError" in src(i.context_expr) and "struct.error" in src(i.context_expr) for i in p_.items):
                    return True
                if isinstance(p_, ast.Try) and any(h.type is None or "struct.error" in src(h.type) or src(h.type) in ("Exception", "BaseException") for h in p_.handlers) \
                        and any(node is y for b_ in p_.body for y in ast.walk(b_)):
                    return True
                p_ = getattr(p_, "_parent", None)
            return False
        nuse = 0
        for blk in sorted(blocks):
            for st_ in [x for x in walk_local(fp2) if isinstance(x, (ast.Assign, ast.AugAssign, ast.AnnAssign, ast.Expr, ast.Return))]:
                unpacks = [c_ for c_ in ast.walk(st_) if isinstance(c_, ast.Call) and call_name(c_) in ("struct.unpack", "unpack", "struct.unpack_from", "unpack_from")
                           and len(c_.args) >= 2 and src(c_.args[1]) == blk]
                slices = [x for x in ast.walk(st_) if isinstance(x, ast.Subscript) and src(x.value) == blk]
                for c_ in unpacks:
                    nuse += 1
                    ctx.check(_guarded(c_), "parse/v2-address-block-length-validated", ctx.construct(Q + "_v2parser.V2Parser.parse", c_),
                              "struct.unpack of the address block is not inside convertError(struct.error, ...): a truncated block escapes as struct.error instead of "
                              "an InvalidProxyHeader")
                for x in slices:
                    nuse += 1
                    ids = g2.ids_of(st_)
                    tested = any(f"len({blk})" in src(resolve_locals(fp2, g2.node(t).ast)) for n_ in ids for t, _lab in g2.edge_guards(n_))
                    ctx.check(tested, "parse/v2-address-block-length-validated", ctx.construct(Q + "_v2parser.V2Parser.parse", st_),
                              f"fields are cut out of the address block by slicing ({src(x)}) with no test of the block's length in front: slicing never fails, so a "
                              "header whose address block is shorter than the family's fixed size is accepted (empty / truncated addresses, following bytes delivered) "
                              "- the other families refuse it through struct.unpack under convertError")
        if blocks and not nuse:
            ctx.note("parse/v2-address-block-length-validated: no use of the address block found; clause left to parse/v2-invalid-headers-refused")
    with ctx.section("protocol constants agree"):
        ctx.need(bool(K), "V1Parser / V2Parser constants")
        # version constants agree between wrapper sniff and parser
        try:
            versions = peval(ca2["VERSIONS"], {})
            commands = {peval(k, {}) for k in ca2["COMMANDS"].keys}
            high = peval(ctx.mod(V2).module_assign("_HIGH"), {})
        except (KeyError, NotConst, AttributeError, TypeError):
            versions = commands = high = None
        ctx.check(versions == [0x20] and commands == {0, 1} and high == 0xF0, "v2table/version-command", Q + "_v2parser.V2Parser.VERSIONS/COMMANDS",
                  "version nibble 0x2 with commands LOCAL(0)/PROXY(1) is not what the parser accepts")
        ctx.check(K["V2Parser.PREFIX"] == _SIG and K["V1Parser.PROXYSTR"] == b"PROXY" and K["V1Parser.NEWLINE"] == b"\r\n", "tables/signatures", Q + "V2Parser.PREFIX / V1Parser.PROXYSTR",
                  "the protocol signatures differ from the PROXY protocol specification")
        ca1 = class_assigns(ctx.cls(V1, "V1Parser"))
        try:
            allowed = peval(ca1["ALLOWED_NET_PROTOS"], {"TCP4_PROTO": K["V1Parser.TCP4_PROTO"], "TCP6_PROTO": K["V1Parser.TCP6_PROTO"], "UNKNOWN_PROTO": K["V1Parser.UNKNOWN_PROTO"]})
        except (KeyError, NotConst):
            allowed = ()
        ctx.check(set(allowed) == {b"TCP4", b"TCP6", b"UNKNOWN"}, "v1table/allowed-protocols", Q + "_v1parser.V1Parser.ALLOWED_NET_PROTOS",
                  f"the allowed v1 protocols are {sorted(allowed)}; TCP4, TCP6 and UNKNOWN must all be accepted (and nothing else)")
    with ctx.section("parsed fields"):
        # source / destination slots
        fp2 = _F(ctx, V2, "V2Parser.parse")
        for fp, qq, srcnames, dstnames in ((fp2, Q + "_v2parser.V2Parser.parse", ("source", "sPort"), ("dest", "dPort")),):
            n_ = 0
            for r in (x for x in walk_local(fp) if isinstance(x, ast.Return) and isinstance(x.value, ast.Call) and src(x.value.func).endswith("ProxyInfo") and len(x.value.args) == 3):
                s_, d_ = r.value.args[1], r.value.args[2]
                if const_value_is(s_, lambda v: v is None) and const_value_is(d_, lambda v: v is None):
                    continue
                n_ += 1
                sn = {x.id for x in ast.walk(s_) if isinstance(x, ast.Name)}
                dn = {x.id for x in ast.walk(d_) if isinstance(x, ast.Name)}
                ok = not (sn & set(dstnames)) and not (dn & set(srcnames)) and bool(sn & set(srcnames)) and bool(dn & set(dstnames))
                ctx.check(ok, "parse/source-dest-slots", ctx.construct(qq, r), "a destination field is used for the source address (or the reverse)")
            ctx.floor("parse/source-dest-slots", n_, 1)
        up = [st for st in walk_local(fp2) if isinstance(st, ast.Assign) and isinstance(st.targets[0], ast.Tuple) and len(st.targets[0].elts) == 4]
        ctx.check(any([src(e) for e in st.targets[0].elts] == ["source", "dest", "sPort", "dPort"] for st in up), "parse/v2-field-order", Q + "_v2parser.V2Parser.parse | <fields>",
                  "the unpacked v2 address block is not read as (source, dest, sPort, dPort)")
    with ctx.section("informational"):
        fp1 = _F(ctx, V1, "V1Parser.parse")
        fp2 = _F(ctx, V2, "V2Parser.parse")
        # informational: conversions outside convertError
        loose = []
        for fp, nm in ((fp1, "V1Parser.parse"), (fp2, "V2Parser.parse")):
            for c in walk_local(fp):
                if isinstance(c, ast.Call) and (call_name(c) == "int" or (isinstance(c.func, ast.Attribute) and c.func.attr == "decode")):
                    p = getattr(c, "_parent", None)
                    inside = False
                    while p is not None and p is not fp:
                        if isinstance(p, ast.With) and any("convertError" in src(i.context_expr) for i in p.items):
                            inside = True
                        p = getattr(p, "_parent", None)
                    if not inside:
                        loose.append(f"{nm}: {src(c)}")
        if loose:
            ctx.note("informational (not armed): conversions outside convertError raise ValueError/UnicodeDecodeError instead of InvalidProxyHeader; the exception still "
                     "closes the connection through the transport: " + "; ".join(sorted(set(loose))[:8]))

    _segmentation(ctx)
    # the wrapper's structural rules are anchored on attribute names (_parser, _undecided, ...); their clauses are also decided by driving the wrapper
    # over whole and segmented streams, which depends on no name
    from sa.props._lib_d import abstain_where_twinned
    abstain_where_twinned(ctx, ["wrapper anchors", "wrapper ordering", "sniff, structural layer"], ["segmentation", "sniffing"],
                          ["segmentation/", "sniff/version-dispatch", "sniff/garbage-rejected", "sniff/valid-prefix-rejected"], 40)


_SNIFF_OLD = ("            if (\n                len(data) >= 16\n                and data[:12] == V2Parser.PREFIX\n                and ord(data[12:13]) & 0b11110000 == 0x20\n            ):\n"
              "                self._parser = parser = V2Parser()\n            elif len(data) >= 8 and data[:5] == V1Parser.PROXYSTR:\n                self._parser = parser = V1Parser()\n"
              "            else:\n                self.loseConnection()\n                return None\n")
_SNIFF_FIXED = ("            data = self._pending + data\n            self._pending = b\"\"\n"
                "            if (\n                len(data) >= 16\n                and data[:12] == V2Parser.PREFIX\n                and ord(data[12:13]) & 0b11110000 == 0x20\n            ):\n"
                "                self._parser = parser = V2Parser()\n            elif len(data) >= 8 and data[:5] == V1Parser.PROXYSTR:\n                self._parser = parser = V1Parser()\n"
                "            elif len(data) < 16 and (V2Parser.PREFIX[: len(data)] == data[:12] or V1Parser.PROXYSTR[: len(data)] == data[:5]):\n"
                "                self._pending = data\n                return None\n"
                "            else:\n                self.loseConnection()\n                return None\n")
MUTANTS = [
    Mutant("v2-unix-paths-cut-in-halves-without-length-validation", V2, '            with convertError(struct.error, MissingAddressData):\n                source, dest = struct.unpack(addressFormat, addrInfo)\n', '            half = struct.calcsize(addressFormat) // 2\n            source, dest = addrInfo[:half], addrInfo[half:]\n', expect_rule="parse/v2-address-block-length-validated"),
    Mutant("v2-unix-paths-cut-in-halves-truncated-header-accepted", V2, '            with convertError(struct.error, MissingAddressData):\n                source, dest = struct.unpack(addressFormat, addrInfo)\n', '            half = struct.calcsize(addressFormat) // 2\n            source, dest = addrInfo[:half], addrInfo[half:]\n', expect_rule="parse/v2-invalid-headers-refused"),
    Mutant("v2-inet-unpack-outside-the-error-conversion", V2, '        with convertError(struct.error, MissingAddressData):\n            info = struct.unpack(addressFormat, addrInfo)\n            source, dest, sPort, dPort = info\n', '        info = struct.unpack(addressFormat, addrInfo)\n        source, dest, sPort, dPort = info\n', expect_rule="parse/v2-address-block-length-validated"),
    Mutant("sniff-by-signature-waits-on-garbage", W, '            if (\n                len(data) >= 16\n                and data[:12] == V2Parser.PREFIX\n                and ord(data[12:13]) & 0b11110000 == 0x20\n            ):\n                self._parser = parser = V2Parser()\n            elif len(data) >= 8 and data[:5] == V1Parser.PROXYSTR:\n                self._parser = parser = V1Parser()\n            elif (len(data) < 16 and data[:12] == V2Parser.PREFIX[: len(data)]) or (\n                len(data) < 8 and data[:5] == V1Parser.PROXYSTR[: len(data)]\n            ):\n                # So far this is the beginning of a PROXY protocol signature,\n                # but the segment was too short to decide; wait for more.\n                self._undecided = data\n                return None\n            else:\n                self.loseConnection()\n                return None\n\n', '            v2Sig, v1Sig = V2Parser.PREFIX, V1Parser.PROXYSTR\n            received = len(data)\n            undecidable = False\n            if data.startswith(v2Sig):\n                if received < 16:\n                    undecidable = True\n                elif ord(data[12:13]) & 0b11110000 == 0x20:\n                    parser = V2Parser()\n            elif data.startswith(v1Sig):\n                if received < 8:\n                    undecidable = True\n                else:\n                    parser = V1Parser()\n            else:\n                undecidable = True\n            if undecidable:\n                self._undecided = data\n                return None\n            if parser is None:\n                self.loseConnection()\n                return None\n            self._parser = parser\n\n', expect_rule="sniff/"),
    Mutant("sniff-by-signature-refuses-a-short-v1-beginning", W, '            if (\n                len(data) >= 16\n                and data[:12] == V2Parser.PREFIX\n                and ord(data[12:13]) & 0b11110000 == 0x20\n            ):\n                self._parser = parser = V2Parser()\n            elif len(data) >= 8 and data[:5] == V1Parser.PROXYSTR:\n                self._parser = parser = V1Parser()\n            elif (len(data) < 16 and data[:12] == V2Parser.PREFIX[: len(data)]) or (\n                len(data) < 8 and data[:5] == V1Parser.PROXYSTR[: len(data)]\n            ):\n                # So far this is the beginning of a PROXY protocol signature,\n                # but the segment was too short to decide; wait for more.\n                self._undecided = data\n                return None\n            else:\n                self.loseConnection()\n                return None\n\n', '            v2Sig, v1Sig = V2Parser.PREFIX, V1Parser.PROXYSTR\n            received = len(data)\n            undecidable = False\n            if data.startswith(v2Sig):\n                if received < 16:\n                    undecidable = True\n                elif ord(data[12:13]) & 0b11110000 == 0x20:\n                    parser = V2Parser()\n            elif data.startswith(v1Sig):\n                if received < 8:\n                    undecidable = True\n                else:\n                    parser = V1Parser()\n            else:\n                undecidable = v2Sig.startswith(data)\n            if undecidable:\n                self._undecided = data\n                return None\n            if parser is None:\n                self.loseConnection()\n                return None\n            self._parser = parser\n\n', expect_rule="sniff/"),
    Mutant("v2-feed-length-read-little-endian", V2, '        size = struct.unpack("!H", self.buffer[14:16])[0] + 16\n        if len(self.buffer) < size:\n            return (None, None)\n\n        header, remaining = self.buffer[:size], self.buffer[size:]\n        self.buffer = b""\n        info = self.parse(header)\n        return (info, remaining)\n', '        have = len(self.buffer)\n        size = 16 + int.from_bytes(self.buffer[14:16], "little")\n        if size <= have:\n            header = self.buffer[:size]\n            remaining = self.buffer[size:]\n            self.buffer = b""\n            return (self.parse(header), remaining)\n        return (None, None)\n', expect_rule="v2feed/"),
    Mutant("v2-feed-positive-test-needs-one-byte-more", V2, '        size = struct.unpack("!H", self.buffer[14:16])[0] + 16\n        if len(self.buffer) < size:\n            return (None, None)\n\n        header, remaining = self.buffer[:size], self.buffer[size:]\n        self.buffer = b""\n        info = self.parse(header)\n        return (info, remaining)\n', '        have = len(self.buffer)\n        size = 16 + int.from_bytes(self.buffer[14:16], "big")\n        if size < have:\n            header = self.buffer[:size]\n            remaining = self.buffer[size:]\n            self.buffer = b""\n            return (self.parse(header), remaining)\n        return (None, None)\n', expect_rule="v2feed/"),
    Mutant("v1-feed-by-find-keeps-the-line-feed", V1, '        if len(self.buffer) > 107 and self.NEWLINE not in self.buffer:\n            raise InvalidProxyHeader()\n        lines = (self.buffer).split(self.NEWLINE, 1)\n        if not len(lines) > 1:\n            return (None, None)\n        self.buffer = b""\n        remaining = lines.pop()\n        header = lines.pop()\n        info = self.parse(header)\n        return (info, remaining)\n', '        at = self.buffer.find(self.NEWLINE)\n        if at < 0:\n            if 107 < len(self.buffer):\n                raise InvalidProxyHeader()\n            return (None, None)\n        header = self.buffer[:at]\n        remaining = self.buffer[at + 1 :]\n        self.buffer = b""\n        return (self.parse(header), remaining)\n', expect_rule="v1feed/"),
    Mutant("feed-result-through-local-stored-only-when-bytes-follow", W, "            self._proxyInfo, remaining = parser.feed(data)\n            if remaining:\n                self.wrappedProtocol.dataReceived(remaining)\n",
           "            parsed, remaining = parser.feed(data)\n            if remaining:\n                self._proxyInfo = parsed\n                self.wrappedProtocol.dataReceived(remaining)\n",
           expect_rule="wrapper/feed-result-stored"),
    Mutant("v1-sniff-needs-longer-segment", W, "            elif len(data) >= 8 and data[:5] == V1Parser.PROXYSTR:", "            elif len(data) >= 12 and data[:5] == V1Parser.PROXYSTR:",
           expect_rule="sniff/valid-prefix-rejected"),
    Mutant("forward-before-header-parsed", W, "            self._proxyInfo, remaining = parser.feed(data)\n            if remaining:\n                self.wrappedProtocol.dataReceived(remaining)\n",
           "            self.wrappedProtocol.dataReceived(data)\n            self._proxyInfo, remaining = parser.feed(data)\n", expect_rule="wrapper/only-remaining-forwarded"),
    Mutant("forward-whole-segment-after-header", W, "                self.wrappedProtocol.dataReceived(remaining)\n", "                self.wrappedProtocol.dataReceived(data)\n",
           expect_rule="wrapper/only-remaining-forwarded"),
    Mutant("invalid-header-swallowed", W, "        except InvalidProxyHeader:\n            self.loseConnection()\n", "        except InvalidProxyHeader:\n            pass\n",
           expect_rule="wrapper/invalid-header-closes"),
    Mutant("handler-narrowed-to-subclass", W, "        except InvalidProxyHeader:\n            self.loseConnection()\n", "        except MissingAddressData:\n            self.loseConnection()\n",
           more=[(W, "from ._exceptions import InvalidProxyHeader\n", "from ._exceptions import InvalidProxyHeader, MissingAddressData\n")], expect_rule="wrapper/invalid-header-closes"),
    Mutant("parser-not-kept", W, "                self._parser = parser = V1Parser()", "                parser = V1Parser()", expect_rule="segmentation/invariant"),
    Mutant("pass-through-falls-into-parser", W, "        if self._proxyInfo is not None:\n            return self.wrappedProtocol.dataReceived(data)\n",
           "        if self._proxyInfo is not None:\n            self.wrappedProtocol.dataReceived(data)\n", expect_rule="wrapper/pass-through"),
    Mutant("addressformats-row-dropped", V2, "        34: \"!16s16s2H\",\n", "", expect_rule="v2table/address-formats"),
    Mutant("addressformats-wrong-width", V2, "        18: \"!4s4s2H\",\n", "        18: \"!4s4sH\",\n", expect_rule="v2table/address-formats"),
    Mutant("v2-complete-header-waits", V2, "        if len(self.buffer) < size:\n            return (None, None)", "        if len(self.buffer) <= size:\n            return (None, None)",
           expect_rule="v2feed/completed-header-parsed"),
    Mutant("v1-payload-crlf-splits-header", V1, "        lines = (self.buffer).split(self.NEWLINE, 1)", "        lines = (self.buffer).split(self.NEWLINE)", expect_rule="v1feed/completed-header-parsed"),
    Mutant("v1-length-limit-too-low", V1, "        if len(self.buffer) > 107 and self.NEWLINE not in self.buffer:", "        if len(self.buffer) > 100 and self.NEWLINE not in self.buffer:",
           expect_rule="v1feed/length-limit-admits-longest-header"),
    Mutant("getpeer-returns-destination", W, "        if self._proxyInfo and self._proxyInfo.source:\n            return self._proxyInfo.source\n",
           "        if self._proxyInfo and self._proxyInfo.source:\n            return self._proxyInfo.destination\n", expect_rule="wrapper/address-from-header"),
    Mutant("v1-ports-crossed", V1, "                address.IPv4Address(\"TCP\", sourceAddr.decode(), int(sourcePort)),", "                address.IPv4Address(\"TCP\", sourceAddr.decode(), int(destPort)),",
           expect_rule="parse/v1-evaluated"),
    Mutant("v1-terminator-searched-in-new-segment-only", V1, "        if len(self.buffer) > 107 and self.NEWLINE not in self.buffer:\n            raise InvalidProxyHeader()\n        lines = (self.buffer).split(self.NEWLINE, 1)\n        if not len(lines) > 1:\n            return (None, None)\n",
           "        if len(self.buffer) > 107 and self.NEWLINE not in self.buffer:\n            raise InvalidProxyHeader()\n        if data.find(self.NEWLINE) < 0:\n            return (None, None)\n"
           "        lines = (self.buffer).split(self.NEWLINE, 1)\n", expect_rule="segmentation/invariant"),
    Mutant("v1-buffer-restarts-with-each-segment", V1, "        self.buffer += data\n        if len(self.buffer) > 107", "        self.buffer = data if self.NEWLINE in data else self.buffer + data\n        if len(self.buffer) > 107",
           expect_rule="segmentation/invariant"),
    Mutant("v2-length-read-from-new-segment", V2, "        size = struct.unpack(\"!H\", self.buffer[14:16])[0] + 16", "        size = struct.unpack(\"!H\", data[14:16])[0] + 16",
           expect_rule="segmentation/invariant"),
    Mutant("v2-parser-buffer-dropped-while-header-incomplete", V2, "        if len(self.buffer) < size:\n            return (None, None)\n",
           "        if len(self.buffer) < size:\n            self.buffer = self.buffer[:16]\n            return (None, None)\n", expect_rule="segmentation/invariant"),
    Mutant("F47u-reverted-protocol-field-needs-a-second-space", V1, "        networkProtocol, _, line = line.partition(b\" \")\n",
           "        with convertError(ValueError, InvalidNetworkProtocol):\n            networkProtocol, line = line.split(b\" \", 1)\n", expect_rule="parse/v1-evaluated"),
    Mutant("v1-terminator-in-chunk-seen-structurally", V1, "        if len(self.buffer) > 107 and self.NEWLINE not in self.buffer:\n            raise InvalidProxyHeader()\n        lines = (self.buffer).split(self.NEWLINE, 1)\n        if not len(lines) > 1:\n            return (None, None)\n",
           "        if len(self.buffer) > 107 and self.NEWLINE not in self.buffer:\n            raise InvalidProxyHeader()\n        if self.NEWLINE not in data:\n            return (None, None)\n"
           "        lines = (self.buffer).split(self.NEWLINE, 1)\n", expect_rule="v1feed/terminator-searched-in-buffer"),
    Mutant("v2-completeness-guard-off-by-one-seen-structurally", V2, "        if len(self.buffer) < size:\n            return (None, None)", "        if not len(self.buffer) > size:\n            return (None, None)",
           expect_rule="v2feed/completeness-normal-form"),
    Mutant("sniff-signature-slice-too-narrow", W, "                and data[:12] == V2Parser.PREFIX", "                and data[:11] == V2Parser.PREFIX", expect_rule="sniff/signature-widths"),
    Mutant("F47-reverted-short-first-segment-refused", W, "            data = self._undecided + data\n            self._undecided = b\"\"\n", "",
           more=[(W, "            elif (len(data) < 16 and data[:12] == V2Parser.PREFIX[: len(data)]) or (\n                len(data) < 8 and data[:5] == V1Parser.PROXYSTR[: len(data)]\n            ):\n"
                     "                # So far this is the beginning of a PROXY protocol signature,\n                # but the segment was too short to decide; wait for more.\n"
                     "                self._undecided = data\n                return None\n", "")],
           expect_rule="sniff/valid-prefix-rejected"),
    Mutant("F47-half-reverted-buffer-never-joined", W, "            data = self._undecided + data\n            self._undecided = b\"\"\n", "            self._undecided = b\"\"\n",
           expect_rule="segmentation/invariant"),
    Mutant("F47-wait-test-too-generous-garbage-never-refused", W, "            elif (len(data) < 16 and data[:12] == V2Parser.PREFIX[: len(data)]) or (\n                len(data) < 8 and data[:5] == V1Parser.PROXYSTR[: len(data)]\n            ):\n",
           "            elif len(data) < 16:\n", expect_rule="sniff/"),
    Mutant("v2-local-header-family-byte-looked-up-first", V2,
           "        if cls.COMMANDS[command] == _LOCALCOMMAND:\n            return _info.ProxyInfo(line, None, None)\n\n        family, netproto = familyProto & _HIGH, familyProto & _LOW\n"
           "        with convertError(ValueError, InvalidNetworkProtocol):\n            family = NetFamily.lookupByValue(family)\n            netproto = NetProtocol.lookupByValue(netproto)\n",
           "        family, netproto = familyProto & _HIGH, familyProto & _LOW\n"
           "        with convertError(ValueError, InvalidNetworkProtocol):\n            family = NetFamily.lookupByValue(family)\n            netproto = NetProtocol.lookupByValue(netproto)\n"
           "        if cls.COMMANDS[command] == _LOCALCOMMAND:\n            return _info.ProxyInfo(line, None, None)\n\n",
           expect_rule="parse/v2-local-ignores-address-block"),
    Mutant("v2-local-header-evaluated-refusal", V2,
           "        if cls.COMMANDS[command] == _LOCALCOMMAND:\n            return _info.ProxyInfo(line, None, None)\n\n        family, netproto = familyProto & _HIGH, familyProto & _LOW\n"
           "        with convertError(ValueError, InvalidNetworkProtocol):\n            family = NetFamily.lookupByValue(family)\n            netproto = NetProtocol.lookupByValue(netproto)\n",
           "        family, netproto = familyProto & _HIGH, familyProto & _LOW\n"
           "        with convertError(ValueError, InvalidNetworkProtocol):\n            family = NetFamily.lookupByValue(family)\n            netproto = NetProtocol.lookupByValue(netproto)\n"
           "        if cls.COMMANDS[command] == _LOCALCOMMAND:\n            return _info.ProxyInfo(line, None, None)\n\n",
           expect_rule="parse/v2-evaluated"),
    Mutant("wait-test-without-length-bound-wrong-version-waits-forever", W,
           "            elif (len(data) < 16 and data[:12] == V2Parser.PREFIX[: len(data)]) or (\n", "            elif (data[:12] == V2Parser.PREFIX[: len(data)]) or (\n",
           expect_rule="sniff/garbage-rejected"),
    Mutant("v2-dgram-reported-as-tcp", V2, "        if netproto is NetProtocol.DGRAM:\n            addrType = \"UDP\"\n", "        if netproto is NetProtocol.STREAM:\n            addrType = \"UDP\"\n",
           expect_rule="parse/v2-evaluated"),
    Mutant("v1-unknown-not-allowed", V1, "    ALLOWED_NET_PROTOS = (\n        TCP4_PROTO,\n        TCP6_PROTO,\n        UNKNOWN_PROTO,\n    )", "    ALLOWED_NET_PROTOS = (\n        TCP4_PROTO,\n        TCP6_PROTO,\n    )",
           expect_rule="v1table/allowed-protocols"),
]
SILENT = [
    Silent("v2-unix-paths-by-slicing-behind-a-length-test", V2, '            with convertError(struct.error, MissingAddressData):\n                source, dest = struct.unpack(addressFormat, addrInfo)\n', '            half = struct.calcsize(addressFormat) // 2\n            if len(addrInfo) < 2 * half:\n                raise MissingAddressData()\n            source, dest = addrInfo[:half], addrInfo[half:]\n'),
    Silent("sniff-grouped-by-signature-with-one-wait-site", W, '            if (\n                len(data) >= 16\n                and data[:12] == V2Parser.PREFIX\n                and ord(data[12:13]) & 0b11110000 == 0x20\n            ):\n                self._parser = parser = V2Parser()\n            elif len(data) >= 8 and data[:5] == V1Parser.PROXYSTR:\n                self._parser = parser = V1Parser()\n            elif (len(data) < 16 and data[:12] == V2Parser.PREFIX[: len(data)]) or (\n                len(data) < 8 and data[:5] == V1Parser.PROXYSTR[: len(data)]\n            ):\n                # So far this is the beginning of a PROXY protocol signature,\n                # but the segment was too short to decide; wait for more.\n                self._undecided = data\n                return None\n            else:\n                self.loseConnection()\n                return None\n\n', '            v2Sig, v1Sig = V2Parser.PREFIX, V1Parser.PROXYSTR\n            received = len(data)\n            undecidable = False\n            if data.startswith(v2Sig):\n                if received < 16:\n                    undecidable = True\n                elif ord(data[12:13]) & 0b11110000 == 0x20:\n                    parser = V2Parser()\n            elif data.startswith(v1Sig):\n                if received < 8:\n                    undecidable = True\n                else:\n                    parser = V1Parser()\n            else:\n                undecidable = v2Sig.startswith(data) or v1Sig.startswith(data)\n            if undecidable:\n                self._undecided = data\n                return None\n            if parser is None:\n                self.loseConnection()\n                return None\n            self._parser = parser\n\n'),
    Silent("v2-feed-length-by-int-from-bytes-positive-completeness-test", V2, '        size = struct.unpack("!H", self.buffer[14:16])[0] + 16\n        if len(self.buffer) < size:\n            return (None, None)\n\n        header, remaining = self.buffer[:size], self.buffer[size:]\n        self.buffer = b""\n        info = self.parse(header)\n        return (info, remaining)\n', '        have = len(self.buffer)\n        size = 16 + int.from_bytes(self.buffer[14:16], "big")\n        if size <= have:\n            header = self.buffer[:size]\n            remaining = self.buffer[size:]\n            self.buffer = b""\n            return (self.parse(header), remaining)\n        return (None, None)\n'),
    Silent("v1-feed-by-find-and-offset-slicing", V1, '        if len(self.buffer) > 107 and self.NEWLINE not in self.buffer:\n            raise InvalidProxyHeader()\n        lines = (self.buffer).split(self.NEWLINE, 1)\n        if not len(lines) > 1:\n            return (None, None)\n        self.buffer = b""\n        remaining = lines.pop()\n        header = lines.pop()\n        info = self.parse(header)\n        return (info, remaining)\n', '        at = self.buffer.find(self.NEWLINE)\n        if at < 0:\n            if 107 < len(self.buffer):\n                raise InvalidProxyHeader()\n            return (None, None)\n        header = self.buffer[:at]\n        remaining = self.buffer[at + len(self.NEWLINE) :]\n        self.buffer = b""\n        return (self.parse(header), remaining)\n'),
    Silent("feed-result-unpacked-into-locals-first", W, "            self._proxyInfo, remaining = parser.feed(data)\n", "            parsed, remaining = parser.feed(data)\n            self._proxyInfo = parsed\n"),
    Silent("sniff-in-static-helper-that-raises-for-garbage", W,
           "            if (\n                len(data) >= 16\n                and data[:12] == V2Parser.PREFIX\n                and ord(data[12:13]) & 0b11110000 == 0x20\n            ):\n"
           "                self._parser = parser = V2Parser()\n            elif len(data) >= 8 and data[:5] == V1Parser.PROXYSTR:\n                self._parser = parser = V1Parser()\n"
           "            elif (len(data) < 16 and data[:12] == V2Parser.PREFIX[: len(data)]) or (\n                len(data) < 8 and data[:5] == V1Parser.PROXYSTR[: len(data)]\n            ):\n"
           "                # So far this is the beginning of a PROXY protocol signature,\n                # but the segment was too short to decide; wait for more.\n                self._undecided = data\n                return None\n            else:\n                self.loseConnection()\n                return None\n",
           "            try:\n                parserClass = self._parserFor(data)\n            except InvalidProxyHeader:\n                self.loseConnection()\n                return None\n"
           "            if parserClass is None:\n                self._undecided = data\n                return None\n            self._parser = parser = parserClass()\n",
           more=[(W, "    def getPeer(self) -> interfaces.IAddress:",
                  "    @staticmethod\n    def _parserFor(data):\n        seen = len(data)\n        if seen >= 16 and data[:12] == V2Parser.PREFIX and ord(data[12:13]) & 0b11110000 == 0x20:\n            return V2Parser\n"
                  "        if seen >= 8 and data[:5] == V1Parser.PROXYSTR:\n            return V1Parser\n"
                  "        if (seen < 16 and data[:12] == V2Parser.PREFIX[:seen]) or (seen < 8 and data[:5] == V1Parser.PROXYSTR[:seen]):\n            return None\n"
                  "        raise InvalidProxyHeader()\n\n    def getPeer(self) -> interfaces.IAddress:")]),
    Silent("sniff-state-in-a-small-slots-class", W, "        self._parser: Union[V2Parser, V1Parser, None] = None\n        # The first bytes of the connection, for as long as there are too few\n        # of them to tell which version of the PROXY protocol is in use.\n        self._undecided = b\"\"\n",
           "        self._sniff = _Sniffing()\n",
           more=[(W, "        parser = self._parser\n        if parser is None:\n            data = self._undecided + data\n            self._undecided = b\"\"\n",
                  "        parser = self._sniff.parser\n        if parser is None:\n            data = self._sniff.held + data\n            self._sniff.held = b\"\"\n"),
                 (W, "                self._parser = parser = V2Parser()\n", "                self._sniff.parser = parser = V2Parser()\n"),
                 (W, "                self._parser = parser = V1Parser()\n", "                self._sniff.parser = parser = V1Parser()\n"),
                 (W, "                self._undecided = data\n                return None\n", "                self._sniff.held = data\n                return None\n"),
                 (W, "class HAProxyProtocolWrapper(policies.ProtocolWrapper):", "class _Sniffing:\n    __slots__ = (\"parser\", \"held\")\n\n    def __init__(self):\n        self.parser = None\n        self.held = b\"\"\n\n\nclass HAProxyProtocolWrapper(policies.ProtocolWrapper):")]),
    Silent("v1-feed-split-by-unpacking-with-valueerror", V1,
           "        lines = (self.buffer).split(self.NEWLINE, 1)\n        if not len(lines) > 1:\n            return (None, None)\n        self.buffer = b\"\"\n"
           "        remaining = lines.pop()\n        header = lines.pop()\n        info = self.parse(header)\n        return (info, remaining)\n",
           "        try:\n            header, remaining = self.buffer.split(self.NEWLINE, 1)\n        except ValueError:\n            return (None, None)\n        self.buffer = b\"\"\n"
           "        return (self.parse(header), remaining)\n"),
    Silent("F47-fix-respelled-wait-test-in-a-helper", W,
           "            elif (len(data) < 16 and data[:12] == V2Parser.PREFIX[: len(data)]) or (\n                len(data) < 8 and data[:5] == V1Parser.PROXYSTR[: len(data)]\n            ):\n",
           "            elif self._mayStillBeAHeader(data):\n",
           more=[(W, "    def getPeer(self) -> interfaces.IAddress:",
                  "    def _mayStillBeAHeader(self, data):\n        seen = len(data)\n        if seen < 16 and data[:12] == V2Parser.PREFIX[:seen]:\n            return True\n"
                  "        return seen < 8 and data[:5] == V1Parser.PROXYSTR[:seen]\n\n    def getPeer(self) -> interfaces.IAddress:")]),
    Silent("sniff-tests-respelled", W, "            elif len(data) >= 8 and data[:5] == V1Parser.PROXYSTR:", "            elif not len(data) < 8 and data.startswith(V1Parser.PROXYSTR):"),
    Silent("feed-result-via-locals", W, "            if remaining:\n                self.wrappedProtocol.dataReceived(remaining)\n",
           "            if remaining is not None and len(remaining) > 0:\n                self.wrappedProtocol.dataReceived(remaining)\n"),
    Silent("v2-incomplete-respelled", V2, "        if len(self.buffer) < size:\n            return (None, None)", "        if size > len(self.buffer):\n            return (None, None)"),
    Silent("v1-terminator-search-limited-to-the-unscanned-tail", V1, "        if len(self.buffer) > 107 and self.NEWLINE not in self.buffer:\n            raise InvalidProxyHeader()\n        lines = (self.buffer).split(self.NEWLINE, 1)\n        if not len(lines) > 1:\n            return (None, None)\n",
           "        if len(self.buffer) > 107 and self.NEWLINE not in self.buffer:\n            raise InvalidProxyHeader()\n"
           "        if self.NEWLINE not in self.buffer[-(len(data) + len(self.NEWLINE) - 1):]:\n            return (None, None)\n        lines = (self.buffer).split(self.NEWLINE, 1)\n"),
    Silent("sniff-extracted-into-helper", W,
           "            if (\n                len(data) >= 16\n                and data[:12] == V2Parser.PREFIX\n                and ord(data[12:13]) & 0b11110000 == 0x20\n            ):\n"
           "                self._parser = parser = V2Parser()\n            elif len(data) >= 8 and data[:5] == V1Parser.PROXYSTR:\n                self._parser = parser = V1Parser()\n            elif (",
           "            parser = self._pickParser(data)\n            if parser is not None:\n                self._parser = parser\n            elif (",
           more=[(W, "    def getPeer(self) -> interfaces.IAddress:",
                  "    def _pickParser(self, data):\n        if len(data) >= 16 and data[:12] == V2Parser.PREFIX and ord(data[12:13]) & 0b11110000 == 0x20:\n            return V2Parser()\n"
                  "        if len(data) >= 8 and data[:5] == V1Parser.PROXYSTR:\n            return V1Parser()\n        return None\n\n    def getPeer(self) -> interfaces.IAddress:")]),
    Silent("v1-feed-by-partition-on-a-snapshot", V1,
           "        self.buffer += data\n        if len(self.buffer) > 107 and self.NEWLINE not in self.buffer:\n            raise InvalidProxyHeader()\n"
           "        lines = (self.buffer).split(self.NEWLINE, 1)\n        if not len(lines) > 1:\n            return (None, None)\n        self.buffer = b\"\"\n"
           "        remaining = lines.pop()\n        header = lines.pop()\n        info = self.parse(header)\n        return (info, remaining)\n",
           "        self.buffer = held = self.buffer + data\n        head, sep, tail = held.partition(self.NEWLINE)\n        if not sep:\n            if len(held) > 107:\n"
           "                raise InvalidProxyHeader()\n            return (None, None)\n        self.buffer = b\"\"\n        return (self.parse(head), tail)\n"),
    Silent("getpeer-gethost-share-a-lookup", W, "        if self._proxyInfo and self._proxyInfo.source:\n            return self._proxyInfo.source\n",
           "        found = self._announced(\"source\")\n        if found:\n            return found\n",
           more=[(W, "        if self._proxyInfo and self._proxyInfo.destination:\n            return self._proxyInfo.destination\n",
                  "        found = self._announced(\"destination\")\n        if found:\n            return found\n"),
                 (W, "    def getPeer(self) -> interfaces.IAddress:", "    def _announced(self, which):\n        info = self._proxyInfo\n        return info and getattr(info, which)\n\n    def getPeer(self) -> interfaces.IAddress:")]),
    Silent("v1-parse-tcp-families-merged", V1,
           "        if networkProtocol == cls.TCP4_PROTO:\n            return _info.ProxyInfo(\n                originalLine,\n                address.IPv4Address(\"TCP\", sourceAddr.decode(), int(sourcePort)),\n"
           "                address.IPv4Address(\"TCP\", destAddr.decode(), int(destPort)),\n            )\n\n        return _info.ProxyInfo(\n            originalLine,\n"
           "            address.IPv6Address(\"TCP\", sourceAddr.decode(), int(sourcePort)),\n            address.IPv6Address(\"TCP\", destAddr.decode(), int(destPort)),\n        )\n",
           "        family = address.IPv4Address if networkProtocol == cls.TCP4_PROTO else address.IPv6Address\n        return _info.ProxyInfo(\n            originalLine,\n"
           "            family(\"TCP\", sourceAddr.decode(), int(sourcePort)),\n            family(\"TCP\", destAddr.decode(), int(destPort)),\n        )\n"),
    Silent("handler-broadened", W, "        except InvalidProxyHeader:\n            self.loseConnection()\n", "        except (InvalidProxyHeader, ValueError):\n            self.loseConnection()\n"),
]
