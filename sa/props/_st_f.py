"""dev helper (batch F): print self-test details.  usage: python -m sa.props._st_f C23"""
import sys
sys.path.insert(0, "/verif")
from sa.check import selftest, load_module
from sa.report import load_known
prop = sys.argv[1]
res = selftest(prop, load_module(prop), load_known())
for m in res["mutants"]:
    print("M", m["name"], "->", m["outcome"])
    for r in m.get("reported", []):
        print("      ", r[:230])
for m in res["silent"]:
    print("S", m["name"], "->", m["outcome"][:400])
